"""Binding of spec/Persist.tla to the real save/load code of py-tdgl (C14).

spec -> code: TLC enumerates option records, device shapes, mesh modes and solution shapes (Persist.Emit); each one
is materialised here with the REAL classes (SolverOptions inside a tiny solved Solution, Device/Layer/Polygon,
Mesh, Solution), saved with the real to_hdf5 and loaded with the real from_hdf5.
code -> spec: the trace made / save / load carries records of CONTENT IDENTITIES: the object that is saved, what an
independent reader (h5py) finds in the file, and the object that was loaded, abstracted by the same interner
(equal integer <=> bit-identical content; option values -> the tokens of the specification).  TLC validates the
trace against spec/PersistTrace.tla and evaluates LoadSaveIdentity / FileHoldsContent /
MeshRestoredEqualsRecomputed.  Python compares nothing."""
from __future__ import annotations

import contextlib
import copy as _copy
import hashlib
import json
import os
import shutil
import tempfile

import numpy as np

from . import core

MECH = dict(MSkip="none", MLoadMissing="none", MLayerCond=True, MRestoreDual=True, MPolyAsHeld=True, MDynAlways=True, MTransformRebuilds=True, MBrowseRereads=True, MBrowseResetsViews=True, MMemoByPath=False)
PINNED = dict(MECH, MLoadMissing="default")
INVARIANTS = ["TypeOK", "LoadSaveIdentity", "FileHoldsContent", "SavedMeshIsMeshOfItsTriangulation", "MeshRestoredEqualsRecomputed", "BrowsedStepIsRecordedStep", "BrowsedViewsBelongToStep"]

OPT_NAMES = ["solve_time", "skip_time", "dt_init", "dt_max", "adaptive", "adaptive_window", "max_solve_retries",
             "adaptive_time_step_multiplier", "output_file", "terminal_psi", "gpu", "sparse_solver",
             "pause_on_interrupt", "save_every", "progress_interval", "monitor", "monitor_update_interval",
             "field_units", "current_units", "include_screening", "max_iterations_per_step",
             "screening_tolerance", "screening_step_size", "screening_step_drag"]
MESH_ARRAYS = ["sites", "elements", "boundary_indices", "areas", "dual_sites", "voronoi_polygons", "centers", "edges",
               "boundary_edge_indices", "directions", "edge_lengths", "dual_edge_lengths"]
EDGE_ARRAYS = ["centers", "edges", "boundary_edge_indices", "directions", "edge_lengths", "dual_edge_lengths"]
LAYER_FIELDS = ["london_lambda", "coherence_length", "thickness", "conductivity", "u", "gamma", "z0"]
FRAME_FIELDS = ["epsilon", "psi", "mu", "applied_vector_potential", "induced_vector_potential", "supercurrent",
                "normal_current"]


def opt_table(tdgl, path="out.h5"):
    """token -> concrete value, per option ("d" is the dataclass default; solve_time has none: "d" is a base value)."""
    S = tdgl.solver.options.SparseSolver
    return {
        "solve_time": {"d": 0.25, "n": 0.5}, "skip_time": {"d": 0.0, "n": 0.125},
        "dt_init": {"d": 1e-6, "n": 1e-3}, "dt_max": {"d": 1e-1, "n": 0.05},
        "adaptive": {"d": True, "n": False}, "adaptive_window": {"d": 10, "n": 4},
        "max_solve_retries": {"d": 10, "n": 3}, "adaptive_time_step_multiplier": {"d": 0.25, "n": 0.5},
        "output_file": {"d": None, "n": path}, "terminal_psi": {"d": 0.0, "n": 0.5, "c": 0.3 + 0.4j, "N": None},
        "gpu": {"d": False}, "sparse_solver": {"d": S.SUPERLU},
        "pause_on_interrupt": {"d": True, "n": False}, "save_every": {"d": 100, "n": 7},
        "progress_interval": {"d": 0, "n": 5}, "monitor": {"d": False, "n": True},
        "monitor_update_interval": {"d": 1.0, "n": 2.5}, "field_units": {"d": "mT", "n": "uT"},
        "current_units": {"d": "uA", "n": "mA"}, "include_screening": {"d": False, "n": True},
        "max_iterations_per_step": {"d": 1000, "n": 50}, "screening_tolerance": {"d": 1e-3, "n": 1e-2},
        "screening_step_size": {"d": 0.1, "n": 0.5}, "screening_step_drag": {"d": 0.5, "n": 0.25},
    }


def to_token(table, name, value):
    """A concrete option value (as loaded, or as found in the file) -> the token of the specification; '?' if none."""
    if isinstance(value, bytes):
        value = value.decode()
    for tok, v in table[name].items():
        if v is None or value is None:
            if v is None and value is None:
                return tok
            continue
        if name == "sparse_solver":
            if value is v or value == v.value:
                return tok
            continue
        if isinstance(v, bool) != isinstance(value, (bool, np.bool_)):
            continue
        try:
            if bool(value == v):
                return tok
        except Exception:
            pass
    return "?"


# ---------------------------------------------------------------- content identities


class Interner:
    """content -> small positive integer; 0 is reserved for 'not there / None'."""

    def __init__(self):
        self.ids = {}

    def __call__(self, *content):
        key = repr(content)
        if key not in self.ids:
            self.ids[key] = len(self.ids) + 1
        return self.ids[key]

    def arr(self, a):
        if a is None:
            return 0
        a = np.ascontiguousarray(a)
        return self("arr", a.dtype.str, a.shape, hashlib.sha1(a.tobytes()).hexdigest())

    def scalar(self, v):
        if v is None:
            return 0
        if isinstance(v, bytes):
            v = v.decode()
        if isinstance(v, (str, np.str_)):
            return self("str", str(v))
        return self("num", repr(complex(v)))

    def poly(self, name, mesh, points):
        return self("poly", None if name is None else str(name), bool(mesh), self.arr(np.asarray(points)))

    def voronoi_list(self, polys):
        if polys is None:
            return 0
        split = np.cumsum([len(p) for p in polys[:-1]])
        return self("vor", self.arr(np.concatenate(polys, axis=0)), self.arr(np.asarray(split)))

    def voronoi_flat(self, flat, split):
        return self("vor", self.arr(np.asarray(flat)), self.arr(np.asarray(split)))


def mesh_rec(I, mesh):
    if mesh is None:
        return {a: 0 for a in MESH_ARRAYS}
    r = {a: I.arr(getattr(mesh, a, None)) for a in ("sites", "elements", "boundary_indices", "areas", "dual_sites")}
    r["voronoi_polygons"] = I.voronoi_list(mesh.voronoi_polygons)
    em = mesh.edge_mesh
    for a in EDGE_ARRAYS:
        r[a] = I.arr(getattr(em, a, None)) if em is not None else 0
    return r


def mesh_rec_raw(I, grp):
    """What an independent reader finds in a mesh group."""
    r = {a: 0 for a in MESH_ARRAYS}
    if grp is None:
        return r
    for a in ("sites", "elements", "boundary_indices", "areas", "dual_sites"):
        if a in grp:
            r[a] = I.arr(np.array(grp[a]))
    if "voronoi_polygons_flat" in grp and "voronoi_split_indices" in grp:
        r["voronoi_polygons"] = I.voronoi_flat(np.array(grp["voronoi_polygons_flat"]), np.array(grp["voronoi_split_indices"]))
    if "edge_mesh" in grp:
        for a in EDGE_ARRAYS:
            if a in grp["edge_mesh"]:
                r[a] = I.arr(np.array(grp["edge_mesh"][a]))
    return r


def recomputed_rec(I, tdgl, mesh):
    """Identities of the mesh recomputed from the triangulation (sites, elements) of `mesh` with the real
    Mesh.from_triangulation (NoMesh if there is none)."""
    if mesh is None:
        return {a: 0 for a in MESH_ARRAYS}
    return mesh_rec(I, tdgl.finite_volume.Mesh.from_triangulation(np.array(mesh.sites), np.array(mesh.elements)))


SHIFT = (0.75, -0.5)


def transformed(dev, pre, smooth=0):
    """The pre-save history of a meshed device (except "context", which is entered around the save)."""
    if pre == "translate":
        dev.translate(SHIFT[0], SHIFT[1], inplace=True)
        return dev
    if pre in ("rotate", "scale"):
        import logging

        logging.disable(logging.WARNING)
        try:
            new = dev.rotate(30.0) if pre == "rotate" else dev.scale(xfact=1.25, yfact=0.8)
        finally:
            logging.disable(logging.NOTSET)
        new.make_mesh(max_edge_length=1.4 * (1.25 if pre == "scale" else 1.0), smooth=smooth)
        return new
    return dev


def device_rec(I, dev):
    lay = dev.layer
    return {
        "name": I.scalar(dev.name), "length_units": I.scalar(dev.length_units),
        "layer": {f: I.scalar(getattr(lay, f)) for f in LAYER_FIELDS},
        "film": I.poly(dev.film.name, dev.film.mesh, dev.film.points),
        "holes": [I.poly(p.name, p.mesh, p.points) for p in sorted(dev.holes, key=lambda p: p.name)],
        "terminals": [I.poly(p.name, p.mesh, p.points) for p in sorted(dev.terminals, key=lambda p: p.name)],
        "probe_points": I.arr(dev.probe_points) if dev.probe_points is not None else 0,
        "mesh": mesh_rec(I, dev.mesh),
    }


def device_rec_raw(I, f):
    def poly(g):
        return I.poly(g.attrs["name"] if "name" in g.attrs else None, g.attrs["mesh"], np.array(g["points"]))

    lay = f["layer"].attrs
    rec = {
        "name": I.scalar(f.attrs["name"]), "length_units": I.scalar(f.attrs["length_units"]),
        "layer": {k: (I.scalar(lay[k]) if k in lay else 0) for k in LAYER_FIELDS},
        "film": poly(f["film"]),
        "holes": [poly(f["holes"][k]) for k in sorted(f["holes"])] if "holes" in f else [],
        "terminals": [poly(f["terminals"][k]) for k in sorted(f["terminals"])] if "terminals" in f else [],
        "probe_points": I.arr(np.array(f["probe_points"])) if "probe_points" in f else 0,
        "mesh": mesh_rec_raw(I, f["mesh"] if "mesh" in f else None),
    }
    return rec, sorted(k for k in f if k in ("layer", "film", "terminals", "holes", "probe_points", "mesh"))


def b2s(r):
    return "T" if r is True or (isinstance(r, np.bool_) and bool(r)) else ("F" if r is False or isinstance(r, np.bool_) else "notbool")


def guarded(fn):
    try:
        return True, fn(), ""
    except Exception as e:
        return False, None, f"{type(e).__name__}: {str(e)[:160]}"


# ---------------------------------------------------------------- a tiny solved Solution per process

_BASE = {}


def base_solution(tdgl, tmp, nsteps=5, k=2, kind="barhole", probes=2, screening=False, nofile=False, smooth=0, pre="none", dyn="none"):
    """A tiny real run (fixed step): nsteps steps, a frame every k steps; cached per process.
    nofile: run with output_file=None (the Solution returned by solve() is then not backed by a file)."""
    key = (nsteps, k, kind, probes, screening, nofile, smooth, pre, dyn, tmp)
    if key in _BASE and (nofile or os.path.exists(_BASE[key].path)):
        return _BASE[key]
    d = tempfile.mkdtemp(prefix="pbase", dir=tmp)
    sol = tiny_run(tdgl, None if nofile else os.path.join(d, "base.h5"), nsteps, k, kind, probes, screening, smooth, pre, dyn)
    _BASE[key] = sol
    return sol


def raising_is_an_observation(kind):
    """The real code raising anywhere while an object is built, saved or loaded is an observation (the model continues
    where the code stopped), not a harness failure: it becomes a trace that ends in a failed save."""
    def deco(fn):
        def wrapped(tdgl, args, tmp, *more):
            try:
                return fn(tdgl, args, tmp, *more)
            except core.MachineryFailure:
                raise
            except Exception as e:
                import traceback

                shape = args.get("shape", args) if isinstance(args, dict) else args
                return {"kind": kind, "shape": shape, "label": f"{kind} {json.dumps(shape, sort_keys=True, default=str)[:200]}",
                        "ev": [{"ev": "save", "ok": False, "rec": {}, "present": [],
                                "err": f"{type(e).__name__}: {str(e)[:160]} @ {traceback.format_exc().strip().splitlines()[-3].strip()[:120]}"}]}
        wrapped.__name__ = fn.__name__
        return wrapped
    return deco


# ---------------------------------------------------------------- options


def make_options(tdgl, table, rec):
    return tdgl.SolverOptions(**{f: table[f][rec[f]] for f in OPT_NAMES})


@raising_is_an_observation("options")
def options_case(tdgl, rec, tmp, real=False):
    """One option record -> trace.  real=False: the record replaces the options of a tiny solved Solution, which is
    saved to a new file; real=True: the record is used for a real tiny solve that writes its own file."""
    import h5py

    d = tempfile.mkdtemp(prefix="popt", dir=tmp)
    out = os.path.join(d, "out.h5")
    table = opt_table(tdgl, out)
    ev = [{"ev": "made", "saved": rec}]
    tr = {"kind": "options", "shape": rec, "ev": ev, "label": "options " + (",".join(f"{f}={rec[f]}" for f in OPT_NAMES if rec[f] != "d") or "defaults") + (" [real solve]" if real else "")}
    opts = make_options(tdgl, table, rec)
    if real:
        from . import devices

        # a real run needs a feasible time step: this run's concrete values behind "d"/"n" of two fields
        table["solve_time"] = {"d": 0.05, "n": 0.08}
        table["dt_init"] = {"d": 1e-2, "n": 5e-3}
        opts = make_options(tdgl, table, rec)
        dev = devices.make(tdgl, "bar", mel=1.3, probes=2)
        try:
            sol = tdgl.solve(dev, opts, applied_vector_potential=0.02)
            ok, err = sol is not None, "solve returned None"
        except Exception as e:
            import traceback

            tb = traceback.format_exc()
            if "solution.py" not in tb and "/device/" not in tb and "finite_volume/mesh.py" not in tb:
                # the run itself failed (physics / numerics): nothing was saved, not a save/load observation
                return {"skip": f"{type(e).__name__}: {str(e)[:100]}", "label": tr["label"]}
            ok, sol, err = False, None, f"{type(e).__name__}: {str(e)[:160]}"
        path = sol.path if ok else out
    else:
        sol = base_solution(tdgl, tmp)
        sol = tdgl.Solution.from_hdf5(sol.path)
        sol.options = opts
        path = os.path.join(d, "resaved.h5")
        ok, _, err = guarded(lambda: sol.to_hdf5(path))
    if not ok:
        ev.append({"ev": "save", "ok": False, "err": err, "rec": {}})
        return tr
    with h5py.File(path, "r") as f:
        attrs = dict(f["solution/options"].attrs)
    ev.append({"ev": "save", "ok": True, "rec": {k: to_token(table, k, v) if k in table else "?" for k, v in attrs.items()}})
    ok, loaded, err = guarded(lambda: tdgl.Solution.from_hdf5(path))
    if not ok:
        ev.append({"ev": "load", "ok": False, "err": err, "rec": {}, "eq": "exc"})
        return tr
    lo = loaded.options
    ok2, r, _ = guarded(lambda: lo == opts)
    ev.append({"ev": "load", "ok": True, "rec": {f: to_token(table, f, getattr(lo, f)) for f in OPT_NAMES},
               "eq": b2s(r) if ok2 else "exc"})
    return tr


def options_many(tdgl, args, tmp):
    return [options_case(tdgl, r["rec"], tmp, r.get("real", False)) for r in args["records"]]


# ---------------------------------------------------------------- devices
# A history uses ONE path: generation 1 is saved and loaded, the file is removed, generation 2 (same shape, same
# array shapes, other content) is saved under the SAME path and loaded, all within this process.


def build_device(tdgl, shape, variant=0, gen=1):
    from tdgl.geometry import box, circle

    g = gen - 1
    layer = tdgl.Layer(coherence_length=0.5, london_lambda=2.0 + 0.5 * g, thickness=0.1, gamma=8.0 - 3 * g, u=5.0,
                       z0=0.25 if variant % 2 else 0, conductivity=(1.5 + g) if shape["cond"] else None)
    W, H = 6.0, 4.0
    pts = box(W, H, points=40)
    if variant % 3 == 1:
        pts = pts[::-1]                       # clockwise input
    if variant % 3 == 2:
        pts = np.concatenate([pts, pts[:1]])  # closed input
    film = tdgl.Polygon("film", points=pts)
    holes = [tdgl.Polygon("hole_b", points=circle(0.5, points=12, center=(1.5, 0.3))),
             tdgl.Polygon("hole_a", points=box(0.8, 0.6, center=(-1.2, -0.5))[::-1])][: shape["holes"]]
    terms = [tdgl.Polygon("source", points=box(0.1, H, center=(-W / 2, 0))),
             tdgl.Polygon("drain", points=box(0.1, H, center=(W / 2, 0))),
             tdgl.Polygon("gate", points=box(2.0, 0.1, center=(0, H / 2)))][: shape["terms"]]
    pp = {0: None, 2: [(-2.0, 0.1 * g), (2.0, 0.0)], 3: [(-2.0, 0.0), (0.0, 1.0 - 0.1 * g), (2.0, 0.0)]}[shape["probes"]]
    dev = tdgl.Device("dev%d" % variant, layer=layer, film=film, holes=holes, terminals=terms, probe_points=pp,
                      length_units="um" if variant % 2 == 0 else "nm")
    if shape["mesh"]:
        dev.make_mesh(max_edge_length=1.4, smooth=variant % 2 + 30 * g)      # smoothing keeps the triangulation
    return dev


@raising_is_an_observation("device")
def device_case(tdgl, args, tmp):
    import h5py

    shape, variant = args["shape"], args.get("variant", 0)
    via = args.get("via", "path")
    I = Interner()
    ev = []
    tr = {"kind": "device", "shape": shape, "ev": ev,
          "label": f"device {json.dumps(shape, sort_keys=True)} variant={variant}{' history' if args.get('history') else ''}"}
    d = tempfile.mkdtemp(prefix="pdev", dir=tmp)
    path = os.path.join(d, "dev.h5")
    for gen in ((1, 2) if args.get("history") else (1,)):
        # generation 2: same outline, other layer / probe positions / smoothing (same array shapes, other content)
        dev = transformed(build_device(tdgl, shape, variant, gen), shape.get("pre", "none"), smooth=variant % 2 + 30 * (gen - 1))
        ctxmgr = dev.translation(*SHIFT) if shape.get("pre") == "context" else contextlib.nullcontext()
        ctxmgr.__enter__()      # "context": made / save happen inside `with device.translation(...)`
        try:
            ev.append({"ev": "made", "saved": device_rec(I, dev), "recomp": recomputed_rec(I, tdgl, dev.mesh)})
            if via == "path":
                ok, _, err = guarded(lambda: dev.to_hdf5(path, save_mesh=shape["savemesh"]))
            else:
                def save():
                    with h5py.File(path, "x") as f:
                        dev.to_hdf5(f.create_group("g"), save_mesh=shape["savemesh"])
                ok, _, err = guarded(save)
            saved_state = dev.copy(with_mesh=False)       # what == is asked about: the device as it was saved
        finally:
            ctxmgr.__exit__(None, None, None)
        if not ok:
            ev.append({"ev": "save", "ok": False, "err": err, "rec": {}, "present": []})
            return tr
        with h5py.File(path, "r") as f:
            rec, present = device_rec_raw(I, f if via == "path" else f["g"])
        ev.append({"ev": "save", "ok": True, "rec": rec, "present": present})
        if via == "path":
            ok, dev2, err = guarded(lambda: tdgl.Device.from_hdf5(path))
        else:
            def load():
                with h5py.File(path, "r") as f:
                    return tdgl.Device.from_hdf5(f["g"])
            ok, dev2, err = guarded(load)
        if not ok:
            ev.append({"ev": "load", "ok": False, "err": err, "rec": {}, "eq": "exc"})
            return tr
        ok2, r, _ = guarded(lambda: dev2 == saved_state)
        ev.append({"ev": "load", "ok": True, "rec": device_rec(I, dev2), "eq": b2s(r) if ok2 else "exc"})
        if gen == 1 and args.get("history"):
            os.remove(path)
            ev.append({"ev": "remove", "ok": not os.path.exists(path)})
    return tr


def device_many(tdgl, args, tmp):
    return [device_case(tdgl, a, tmp) for a in args["cases"]]


# ---------------------------------------------------------------- meshes


@raising_is_an_observation("mesh")
def mesh_case(tdgl, args, tmp):
    import h5py

    from . import devices

    shape = args["shape"]
    Mesh = tdgl.finite_volume.Mesh
    I = Interner()
    ev = []
    tr = {"kind": "mesh", "shape": shape, "ev": ev,
          "label": f"mesh compress={shape['compress']} pre={shape.get('pre', 'none')} {args.get('dev', 'barhole')} mel={args.get('mel', 1.3)} smooth={args.get('smooth', 0)}"
                   f"{' history' if args.get('history') else ''}"}
    d = tempfile.mkdtemp(prefix="pmesh", dir=tmp)
    path = os.path.join(d, "mesh.h5")
    for gen in ((1, 2) if args.get("history") else (1,)):
        # generation 2: the same triangulation smoothed further (same array shapes, other coordinates)
        dev = devices.make(tdgl, args.get("dev", "barhole"), mel=args.get("mel", 1.3), smooth=args.get("smooth", 0) + 35 * (gen - 1), probes=2)
        pre = shape.get("pre", "none")
        if pre != "none":
            dev = dev.copy(with_mesh=True)      # (the cached device is shared)
            dev = transformed(dev, pre, smooth=args.get("smooth", 0) + 35 * (gen - 1))
        ctxmgr = dev.translation(*SHIFT) if pre == "context" else contextlib.nullcontext()
        with ctxmgr:
            mesh = dev.mesh                      # "context": the mesh the device holds inside the temporary translation
        ev.append({"ev": "made", "saved": mesh_rec(I, mesh), "recomp": recomputed_rec(I, tdgl, mesh)})

        def save():
            with h5py.File(path, "x") as f:
                mesh.to_hdf5(f.create_group("mesh"), compress=shape["compress"])
        ok, _, err = guarded(save)
        if not ok:
            ev.append({"ev": "save", "ok": False, "err": err, "rec": {}, "present": []})
            return tr
        with h5py.File(path, "r") as f:
            ev.append({"ev": "save", "ok": True, "rec": mesh_rec_raw(I, f["mesh"]), "present": sorted(f["mesh"])})
        # was the mesh recomputed from its triangulation?  (wrapper around the public static method; logs, changes nothing)
        calls = []
        orig = Mesh.__dict__["from_triangulation"]

        def spy(*a, **kw):
            calls.append(1)
            return orig.__func__(*a, **kw)

        Mesh.from_triangulation = staticmethod(spy)
        try:
            def load():
                with h5py.File(path, "r") as f:
                    return Mesh.from_hdf5(f["mesh"])
            ok, m2, err = guarded(load)
        finally:
            Mesh.from_triangulation = orig
        if not ok:
            ev.append({"ev": "load", "ok": False, "err": err, "rec": {}, "eq": "exc", "recomputed": False})
            return tr
        ev.append({"ev": "load", "ok": True, "rec": mesh_rec(I, m2), "eq": "T", "recomputed": bool(calls)})
        if gen == 1 and args.get("history"):
            os.remove(path)
            ev.append({"ev": "remove", "ok": not os.path.exists(path)})
    return tr


# ---------------------------------------------------------------- solutions


def frame_id_raw(I, f, k):
    g = f["data"][str(k)]
    parts = []
    for name in FRAME_FIELDS:
        if name in f:
            parts.append((name, I.arr(np.asarray(f[name]))))
        elif name in g:
            parts.append((name, I.arr(np.array(g[name]))))
        else:
            parts.append((name, 0))
    state = sorted((str(a), I.scalar(v)) for a, v in g.attrs.items())
    return I("frame", int(k), tuple(parts), tuple(state))


def frame_id_obj(I, data):
    parts = [(name, I.arr(getattr(data, name)) if getattr(data, name) is not None else 0) for name in FRAME_FIELDS]
    state = sorted((str(a), I.scalar(v)) for a, v in data.state.items())
    return I("frame", int(data.step), tuple(parts), tuple(state))


def view_id(I, sol):
    """What a Solution derives (lazily, cached on the object) from the step it holds: the sheet current densities on ITS mesh
    and the vorticity."""
    mag = lambda q: np.asarray(getattr(q, "magnitude", q))
    return I("view", I.arr(mag(sol.supercurrent_density)), I.arr(mag(sol.normal_current_density)),
             I.arr(mag(sol.current_density)), I.arr(mag(sol.vorticity)))


def dyn_rec(I, dyn):
    if dyn is None:
        return {f: 0 for f in ("dt", "time", "mu", "theta", "screening_iterations")}
    return {f: I.arr(getattr(dyn, f)) for f in ("dt", "time", "mu", "theta", "screening_iterations")}


def mesh_id(I, rec):
    return I("mesh", tuple(sorted(rec.items())))


def derived(I, sol, queries):
    """Solution.times, closest_solve_step at fixed query times, and the current densities of the step held
    (computed by the Solution from the step's data on ITS mesh)."""
    times = sol.times
    cur = I("currents", *(I.arr(np.asarray(getattr(q, "magnitude", q))) for q in
                          (sol.supercurrent_density, sol.normal_current_density, sol.current_density)))
    return I.arr(times), I("closest", tuple(int(sol.closest_solve_step(t)) for t in queries)), cur


RUNS = {1: (0, 100), 2: (3, 100), 3: (4, 2), 4: (5, 2), 12: (22, 2)}      # nframes -> (steps, save_every)


def dyn_rec_raw(I, f):
    """The per-step records as an independent reader finds them in the file: the running_state groups of the frames in
    NUMERIC step order, unused slots (dt = 0) dropped; time = running sum of dt."""
    steps = sorted(int(s) for s in f["data"])
    dts, mus, thetas, its = [], [], [], []
    for k in steps:
        g = f["data"][str(k)]
        if "running_state" not in g:
            continue
        g = g["running_state"]
        dts.append(np.atleast_1d(g["dt"]))
        n = len(dts[-1])
        if "mu" in g:
            mus.append(np.reshape(g["mu"], (-1, n)))
        if "theta" in g:
            thetas.append(np.reshape(g["theta"], (-1, n)))
        if "screening_iterations" in g:
            its.append(np.atleast_1d(g["screening_iterations"]))
    dt = np.concatenate(dts) if dts else np.array([], dtype=float)
    mask = dt > 0
    dt = dt[mask]
    return {"dt": I.arr(dt), "time": I.arr(np.cumsum(dt)),
            "mu": I.arr(np.concatenate(mus, axis=1)[..., mask]) if mus else 0,
            "theta": I.arr(np.concatenate(thetas, axis=1)[..., mask]) if thetas else 0,
            "screening_iterations": I.arr(np.concatenate(its)[mask]) if its else 0}


def eps_of_time(r, *, t):
    """A time-dependent disorder parameter: the documented plain-function form eps(r, *, t)."""
    return 1.0 - (0.2 + 4.0 * t) * float(np.exp(-((r[0] - 0.5) ** 2 + r[1] ** 2)))


def tiny_run(tdgl, out, nsteps, k, kind, probes, screening, smooth=0, pre="none", dyn="none"):
    from . import devices

    dev = devices.make(tdgl, kind, mel=1.3, probes=probes, smooth=smooth)
    if pre != "none":
        dev = transformed(dev.copy(with_mesh=True), pre, smooth=smooth)       # (the cached device is shared)
    dt = 2.0 ** -6
    opts = tdgl.SolverOptions(solve_time=max(nsteps * dt - dt / 2, 0.0), dt_init=dt, dt_max=dt, adaptive=False, save_every=k,
                              output_file=out, progress_interval=10 ** 9, include_screening=screening, screening_tolerance=1e-2)
    cur = {"source": 1.0, "drain": -1.0} if kind in ("bar", "barhole") else None
    # dyn: inputs that depend on time, so that every frame stores its own epsilon / applied vector potential
    A = 0.2
    if dyn in ("A", "both"):
        A = tdgl.sources.ConstantField(0.2) * tdgl.sources.LinearRamp(tmin=0.0, tmax=0.25, initial=1.0, final=0.25)
    eps = eps_of_time if dyn in ("eps", "both") else 1.0
    with (dev.translation(*SHIFT) if pre == "context" else contextlib.nullcontext()):
        return tdgl.solve(dev, opts, applied_vector_potential=A, terminal_currents=cur, disorder_epsilon=eps)


@raising_is_an_observation("solution")
def solution_case(tdgl, args, tmp):
    import h5py

    shape = args["shape"]
    nsteps, k = RUNS[shape["nframes"]]
    probes = 2 if shape["probes"] else 0
    dev = args.get("dev", "barhole")
    mode = shape["mode"]
    history = bool(args.get("history"))
    dyn = shape.get("dyn", "none")
    pre = args.get("pre", "none")        # what happened to the meshed device before the run (environment choice)
    I = Interner()
    d = tempfile.mkdtemp(prefix="psol", dir=tmp)
    ev = []
    tr = {"kind": "solution", "shape": shape, "ev": ev,
          "label": f"solution {json.dumps(shape, sort_keys=True)} dev={dev} pre={pre}{' history' if history else ''}"}
    target = os.path.join(d, "solution.h5")          # the ONE path the history uses
    for gen in ((1, 2) if history else (1,)):
        smooth = 35 * (gen - 1)       # generation 2: same triangulation smoothed further, hence another run
        work = os.path.join(d, f"work{gen}.h5")
        if mode == "solved":
            # the file tdgl.solve writes under output_file is the saved object
            orig = tiny_run(tdgl, target, nsteps, k, dev, probes, shape["screening"], smooth, pre, dyn)
            if os.path.abspath(orig.path) != os.path.abspath(target):
                raise core.MachineryFailure(f"solve wrote to {orig.path}, not to the path of the history")
            with h5py.File(target, "r") as f:
                steps = sorted(int(s) for s in f["data"])
                frames = [frame_id_raw(I, f, s) for s in steps]
                rawdyn = dyn_rec_raw(I, f)
        elif mode == "nofile":
            # the Solution solve() returns for output_file=None: it holds the last step and the dynamics, its file is gone
            orig = base_solution(tdgl, tmp, nsteps=nsteps, k=k, kind=dev, probes=probes, screening=shape["screening"], nofile=True,
                                 smooth=smooth, pre=pre, dyn=dyn)
            if orig.saved_on_disk:
                raise core.MachineryFailure("solution of a run with output_file=None is backed by a file")
            n = int(orig.data_range[1] - orig.data_range[0] + 1)
            steps = list(range(int(orig.data_range[0]), int(orig.data_range[1]) + 1))
            frames = [0] * (n - 1) + [frame_id_obj(I, orig.tdgl_data)]        # only the step it holds can be known
            rawdyn = None                                                     # (no file to read)
        else:
            base = base_solution(tdgl, tmp, nsteps=nsteps, k=k, kind=dev, probes=probes, screening=shape["screening"], smooth=smooth, pre=pre, dyn=dyn)
            shutil.copy(base.path, work)
            with h5py.File(work, "r") as f:
                steps = sorted(int(s) for s in f["data"])
                frames = [frame_id_raw(I, f, s) for s in steps]
                rawdyn = dyn_rec_raw(I, f)
            # the object that is saved: the solver's own Solution (its mesh is the one it was computed on), at step cur
            orig = tdgl.Solution(device=base.device, options=base.options, path=work,
                                 applied_vector_potential=base.applied_vector_potential, terminal_currents=base.terminal_currents,
                                 disorder_epsilon=base.disorder_epsilon, total_seconds=base.total_seconds,
                                 _solve_step=shape["cur"] - 1)
        total = float(orig.dynamics.time[-1]) if len(orig.dynamics.time) else 1.0
        queries = [0.0, 0.26 * total, 0.5 * total, 0.74 * total, total, 2 * total]
        otimes, oclosest, ocur = derived(I, orig, queries)
        ev.append({"ev": "made", "saved": {"frames": frames, "dyn": rawdyn if rawdyn is not None else dyn_rec(I, orig.dynamics), "times": otimes, "closest": oclosest,
                                           "mesh": mesh_id(I, mesh_rec(I, orig.device.mesh)), "currents": ocur},
                   "recomp": mesh_id(I, recomputed_rec(I, tdgl, orig.device.mesh))})
        if mode == "solved":
            path, ok, err = target, True, ""
        elif mode == "copy":
            path = target
            ok, _, err = guarded(lambda: orig.to_hdf5(path))
        elif mode == "inplace":
            if history:
                raise core.MachineryFailure("in-place saving has no history on another path")
            path = work
            ok, _, err = guarded(lambda: orig.to_hdf5())
        elif mode == "deleted":
            path = target
            orig.delete_hdf5()
            ok, _, err = guarded(lambda: orig.to_hdf5(path))
        else:
            path = target
            ok, _, err = guarded(lambda: orig.to_hdf5(path))
        if not ok:
            ev.append({"ev": "save", "ok": False, "err": err, "rec": {"frames": [], "mesh": 0}})
            return tr
        with h5py.File(path, "r") as f:
            fsteps = sorted(int(s) for s in f["data"])
            ev.append({"ev": "save", "ok": True, "rec": {"frames": [frame_id_raw(I, f, s) for s in fsteps],
                                                         "mesh": mesh_id(I, mesh_rec_raw(I, f["solution/device/mesh"] if "solution/device/mesh" in f else None))}})
        lframes, ldyn, ltimes, lclosest, lcur, lmesh, eqs, err = [], dyn_rec(I, None), 0, 0, 0, 0, [], ""
        lviews = []
        nofile = mode in ("deleted", "nofile")
        held = fsteps[0] if nofile else shape["cur"] - 1 + steps[0]
        try:
            for s in fsteps:
                lo = tdgl.Solution.from_hdf5(path, solve_step=s)
                lframes.append(frame_id_obj(I, lo.tdgl_data))
                lviews.append(view_id(I, lo))          # the views of a reader without history (one fresh object per step)
                if s == held:
                    ldyn = dyn_rec(I, lo.dynamics)
                    ltimes, lclosest, lcur = derived(I, lo, queries)
                    lmesh = mesh_id(I, mesh_rec(I, lo.device.mesh))
                    eqs.append(lo.equals(orig))
            ok = True
        except Exception as e:
            ok, err = False, f"{type(e).__name__}: {str(e)[:160]}"
        ev.append({"ev": "load", "ok": ok, "err": err,
                   "rec": {"frames": lframes, "dyn": ldyn, "times": ltimes, "closest": lclosest, "mesh": lmesh, "currents": lcur},
                   "eq": "T" if eqs and all(r is True or (isinstance(r, np.bool_) and bool(r)) for r in eqs) else ("F" if eqs else "none")})
        # browsing the steps on ONE object: forwards, backwards, negative indices; every step shown is abstracted from the
        # object and compared (by TLC) with the file content read independently at the save event
        if ok:
            try:
                one = tdgl.Solution.from_hdf5(path)
                n = len(fsteps)
                ks = ([0, -1] if nofile else list(range(n)) + list(range(n - 1, -1, -1))) + [-j for j in range(1, n + 1)]
                for kk in ks:
                    try:
                        one.solve_step = kk
                        ev.append({"ev": "browse", "ok": True, "k": kk, "frame": frame_id_obj(I, one.tdgl_data),
                                   "view": view_id(I, one), "views": list(lviews)})
                    except Exception as e:
                        ev.append({"ev": "browse", "ok": False, "k": kk, "frame": 0, "view": 0, "views": [], "err": f"{type(e).__name__}: {str(e)[:120]}"})
                        break
            except Exception as e:
                ev.append({"ev": "browse", "ok": False, "k": 0, "frame": 0, "view": 0, "views": [], "err": f"{type(e).__name__}: {str(e)[:120]}"})
        if gen == 1 and history:
            lo.delete_hdf5()
            ev.append({"ev": "remove", "ok": not os.path.exists(path)})
    return tr


# ---------------------------------------------------------------- parameters stored inside a solution file


def param_in_solution(tdgl, args, tmp):
    """A ParamAlg expression stored inside a Solution file (cloudpickled blob) and read back with Solution.from_hdf5:
    a ParamAlgTrace trace (build, pickle, unpickle, the copy exercised)."""
    from . import paramalg as pa

    tree = args["tree"]
    slot = args.get("slot", "applied_vector_potential")
    ev = []
    tr = {"tree": tree, "ev": ev, "label": f"{pa.show(tree)} as Solution.{slot}"}
    try:
        obj = pa.build(tdgl, tree)
        td = pa.b2s(obj.time_dependent)
    except Exception as e:
        ev.append({"ev": "build", "ok": False, "td": "unset", "cls": type(e).__name__})
        return tr
    ev.append({"ev": "build", "ok": True, "td": td, "cls": ""})
    sol = tdgl.Solution.from_hdf5(base_solution(tdgl, tmp).path)
    setattr(sol, slot, obj)
    d = tempfile.mkdtemp(prefix="ppar", dir=tmp)
    path = os.path.join(d, "withparam.h5")
    try:
        sol.to_hdf5(path)
    except Exception as e:
        ev.append({"ev": "pickle", "ok": False, "cls": type(e).__name__})
        return tr
    ev.append({"ev": "pickle", "ok": True, "cls": ""})
    try:
        cp = getattr(tdgl.Solution.from_hdf5(path), slot)
    except Exception as e:
        ev.append({"ev": "unpickle", "ok": False, "cls": type(e).__name__, "td": "unset", "eq": "unset"})
        return tr
    try:
        ctd = pa.b2s(cp.time_dependent)
    except AttributeError:
        ctd = "unset"
    try:
        r = cp == obj
        ceq = pa.b2s(r) if isinstance(r, (bool, np.bool_)) else "notbool"
    except Exception as e:
        ceq = "exc:" + type(e).__name__
    ev.append({"ev": "unpickle", "ok": True, "cls": "", "td": ctd, "eq": ceq})
    for form, t in pa.COPY_CALLS:
        ev.append(pa.call_event(tdgl, cp, "copy", form, t))
    return tr


def params_many(tdgl, args, tmp):
    from . import paramalg as pa

    out = []
    for it in args["items"]:
        if it.get("via") == "solution":
            out.append(param_in_solution(tdgl, it, tmp))
        else:
            out.append(pa.exercise(tdgl, dict(it, calls=[("F2", 0), ("F3T", 64)], others=[], clear=False, deliver=False)))
    return out


# ---------------------------------------------------------------- parameters across processes
# A saved parameter is normally read by ANOTHER session.  Child 1 is a driver script whose __main__ defines the plain
# named functions p2 / p3 / pt; it builds the expressions on them and saves them (pickle, cloudpickle, inside a Solution
# file).  Child 2 is a fresh process that does not define those names; child 3 defines the same names as DIFFERENT
# functions.  Both load and evaluate at the fixed point set; the trace build / pickle / unpickle / call(copy) is
# validated by TLC against ParamAlgTrace (loaded values == values of the saved expression).

DEFS = """def p2(x, y, a=0):
    return x + 2 * y - a


def p3(x, y, z, b=0):
    return x - y + z + b


def pt(x, y, z, *, t, c=0):
    return x + y + 2 * z - c + t
"""

REBOUND = """def p2(x, y, a=0):
    return 100.0 + 0 * x


def p3(x, y, z, b=0):
    return 200.0 + 0 * x


def pt(x, y, z, *, t, c=0):
    return 300.0 + 0 * x + 0 * t
"""

CHILD_SAVE = """
import json, os, pickle, sys
sys.path.insert(0, "/verif")
from harness import core, paramalg as pa, persist as ps
import cloudpickle
tdgl = core.import_tdgl()
job = json.load(open(sys.argv[1]))
out = []
for n, it in enumerate(job["items"]):
    rec = {"build": None, "saves": {}}
    try:
        obj = pa.build(tdgl, it["tree"], "main")
        rec["build"] = {"ev": "build", "ok": True, "td": pa.b2s(obj.time_dependent), "cls": ""}
    except Exception as e:
        rec["build"] = {"ev": "build", "ok": False, "td": "unset", "cls": type(e).__name__}
        out.append(rec)
        continue
    for method in it["methods"]:
        path = os.path.join(job["dir"], f"{n}_{method}.bin")
        try:
            if method == "solution":
                sol = tdgl.Solution.from_hdf5(ps.base_solution(tdgl, job["dir"]).path)
                setattr(sol, it.get("slot", "applied_vector_potential"), obj)
                path = os.path.join(job["dir"], f"{n}_solution.h5")
                sol.to_hdf5(path)
            else:
                blob = (pickle if method == "pickle" else cloudpickle).dumps(obj)
                open(path, "wb").write(blob)
            rec["saves"][method] = {"ok": True, "cls": "", "path": path}
        except Exception as e:
            rec["saves"][method] = {"ok": False, "cls": type(e).__name__, "path": path}
    out.append(rec)
json.dump(out, open(sys.argv[2], "w"))
"""

CHILD_LOAD = """
import json, os, pickle, sys
sys.path.insert(0, "/verif")
from harness import core, paramalg as pa
import numpy as np
tdgl = core.import_tdgl()
job = json.load(open(sys.argv[1]))
sys.path.insert(0, job["dir"])
saved = json.load(open(sys.argv[2]))
out = []
for n, (it, sv) in enumerate(zip(job["items"], saved)):
    res = {}
    for method in it["methods"]:
        s = sv["saves"].get(method)
        if not s or not s["ok"]:
            continue
        ev = []
        try:
            if method == "solution":
                cp = getattr(tdgl.Solution.from_hdf5(s["path"]), it.get("slot", "applied_vector_potential"))
            else:
                cp = pickle.loads(open(s["path"], "rb").read())
        except Exception as e:
            ev.append({"ev": "unpickle", "ok": False, "cls": type(e).__name__, "msg": str(e)[:120], "td": "unset", "eq": "unset"})
            res[method] = ev
            continue
        try:
            ctd = pa.b2s(cp.time_dependent)
        except AttributeError:
            ctd = "unset"
        try:
            # the original, rebuilt on the same definitions kept in a module of another name
            r = cp == pa.build(tdgl, it["tree"], "module:pa_defs_copy")
            ceq = pa.b2s(r) if isinstance(r, (bool, np.bool_)) else "notbool"
        except Exception as e:
            ceq = "exc:" + type(e).__name__
        ev.append({"ev": "unpickle", "ok": True, "cls": "", "td": ctd, "eq": ceq})
        for form, t in pa.COPY_CALLS:
            ev.append(pa.call_event(tdgl, cp, "copy", form, t))
        res[method] = ev
    out.append(res)
json.dump(out, open(sys.argv[3], "w"))
"""


def params_crossproc(tdgl, args, tmp):
    """items: [{tree, methods}] -> ParamAlgTrace traces whose pickle happened in one process and whose unpickle and
    evaluation happened in a fresh process (names undefined) and in a process where the names are rebound."""
    import subprocess
    import sys

    from . import paramalg as pa

    d = tempfile.mkdtemp(prefix="pxproc", dir=tmp)
    items = []
    for it in args["items"]:
        # (a plain Parameter given to the standard pickler is stored by reference by the standard pickler itself)
        methods = [m for m in it.get("methods", ["pickle", "cloudpickle"]) if not (m == "pickle" and it["tree"]["k"] != "N")]
        items.append(dict(it, methods=methods))
    job = os.path.join(d, "job.json")
    json.dump({"dir": d, "items": items}, open(job, "w"))
    open(os.path.join(d, "pa_defs_copy.py"), "w").write(DEFS)
    open(os.path.join(d, "driver_save.py"), "w").write(DEFS + CHILD_SAVE)           # the names live in __main__
    open(os.path.join(d, "driver_fresh.py"), "w").write(CHILD_LOAD)                 # the names do not exist
    open(os.path.join(d, "driver_rebound.py"), "w").write(REBOUND + CHILD_LOAD)     # the names are other functions
    env = dict(os.environ, NUMBA_NUM_THREADS="1", OMP_NUM_THREADS="1")
    saved, fresh, rebound = (os.path.join(d, f) for f in ("saved.json", "fresh.json", "rebound.json"))
    p1 = subprocess.run([sys.executable, os.path.join(d, "driver_save.py"), job, saved], env=env, capture_output=True,
                        text=True, timeout=600)
    if p1.returncode != 0:
        raise core.MachineryFailure(f"driver_save.py failed: {p1.stderr[-1500:]}")
    p2 = subprocess.Popen([sys.executable, os.path.join(d, "driver_fresh.py"), job, saved, fresh], env=env,
                          stdout=subprocess.DEVNULL, stderr=subprocess.PIPE, text=True)
    p3 = subprocess.Popen([sys.executable, os.path.join(d, "driver_rebound.py"), job, saved, rebound], env=env,
                          stdout=subprocess.DEVNULL, stderr=subprocess.PIPE, text=True)
    for p, name in ((p2, "driver_fresh.py"), (p3, "driver_rebound.py")):
        _, err = p.communicate(timeout=600)
        if p.returncode != 0:
            raise core.MachineryFailure(f"{name} failed: {err[-1500:]}")
    sv, fr, rb = (json.load(open(f)) for f in (saved, fresh, rebound))
    traces = []
    for it, s, f, r in zip(items, sv, fr, rb):
        if not s["build"]["ok"]:
            continue
        for where, res in (("fresh process", f), ("process with the names rebound", r)):
            ev = [s["build"]]
            for m in it["methods"]:
                ev.append({"ev": "pickle", "ok": s["saves"][m]["ok"], "cls": s["saves"][m]["cls"], "method": m})
                if not s["saves"][m]["ok"]:
                    break
                ev += res.get(m, [])
                if not ev[-1].get("ok", True):
                    break
            traces.append({"tree": it["tree"], "ev": ev,
                           "label": f"{pa.show(it['tree'])} on __main__ functions, saved by {'/'.join(it['methods'])}, loaded in a {where}"})
    return traces


# ---------------------------------------------------------------- TLC side


def tla(v):
    if isinstance(v, bool):
        return "TRUE" if v else "FALSE"
    if isinstance(v, str):
        return '"' + v + '"'
    return str(v)


def model_cfg(kinds, maxdev, pairmod, seed, mech, invariants, spec="Spec"):
    lines = ["CONSTANTS", " Kinds = {" + ", ".join(tla(k) for k in kinds) + "}", f" MaxDev = {maxdev}",
             f" PairMod = {pairmod}", f" Seed = {seed % 10007}"]
    lines += [f" {k} = {tla(v)}" for k, v in mech.items()]
    return ("\n".join(lines) + f"\nSPECIFICATION {spec}\n" + "".join(f"INVARIANT {i}\n" for i in invariants)
            + "CHECK_DEADLOCK FALSE\n")


def trace_cfg(mech=MECH, invariants=INVARIANTS):
    return model_cfg(["options", "device", "mesh", "solution"], 99, 1, 0, mech, ["Accepted"] + list(invariants), spec="TSpec")


def parse_export(r):
    items = []
    for line in r.printed():
        if line.startswith('"{'):
            items.append(json.loads(json.loads(line)))
    return items


def normalise(tr):
    ev = []
    for e in tr["ev"]:
        ev.append({k: v for k, v in e.items() if k not in ("err",)})
    return {"kind": tr["kind"], "shape": tr["shape"], "ev": ev}


def validate(ctx, pid, traces, what, max_diag=6):
    """TLC validates the traces; every rejected one is a violation.  Returns (accepted ids, normalised traces)."""
    norm = [normalise(t) for t in traces]
    cfg = trace_cfg()
    accepted, r = ctx.validate_traces("PersistTrace", norm, cfg, name=f"PersistTrace[{what}]")
    ctx.cov["traces_validated_against_impl"] += len(accepted)
    rejected = [n for n in range(len(norm)) if n not in accepted]
    seen = {}
    for n in rejected:
        tr = traces[n]
        pre = tr["kind"] + ":" + next((f"{e['ev']}:{e.get('err', '').split(':')[0]}" for e in tr["ev"] if not e.get("ok", True)), "content")
        if any(e["ev"] == "remove" for e in tr["ev"]):
            pre += ":history"
        if tr["kind"] == "options":
            pre += ":" + ",".join(f"{f}={v}" for f, v in tr["shape"].items() if v in ("N",))
        seen[pre] = seen.get(pre, 0) + 1
        if seen[pre] > 2 or sum(1 for _ in ctx.violations) >= max_diag + 4:
            continue
        far, violated, tail = ctx.diagnose_trace("PersistTrace", norm[n], cfg)
        e = tr["ev"][far - 1] if 0 < far <= len(tr["ev"]) else None
        clause = ",".join(violated) if violated else (
            "SavedMeshIsMeshOfItsTriangulation / MeshRestoredEqualsRecomputed (the object's mesh is not the mesh of its triangulation)"
            if e is not None and e["ev"] == "made" else
            "BrowsedStepIsRecordedStep / BrowsedViewsBelongToStep (the step shown while browsing one Solution, or what the object derives from it, is not the step the file holds)"
            if e is not None and e["ev"] == "browse" else "LoadSaveIdentity (no matching action)")
        detail = ""
        if e is not None and tr["kind"] == "options" and e["ev"] == "load":
            detail = "; loaded differs from saved in: " + ", ".join(
                f"{f}: saved {tr['shape'][f]} loaded {e['rec'].get(f)}" for f in OPT_NAMES if e["rec"].get(f) != tr["shape"][f])
        ctx.violation(f"{pid}:{what}:{tr['kind']}:{e['ev'] if e else '?'}:{tr['label']}",
                      f"{what}: save/load of {tr['label']} with the real classes is not a behaviour of Persist (clause {clause}); "
                      f"matched {max(far - 1, 0)}/{len(tr['ev'])} events; stuck at event {far}: "
                      f"{json.dumps(e, default=str)[:300]}{detail}",
                      {"trace": tr, "stuck_at": far, "violated": violated, "tlc_tail": tail})
    ctx.cov[f"rejected_traces[{what}]"] = {"total": len(rejected), "classes": seen}
    return accepted, norm
