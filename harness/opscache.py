"""Binding of spec/OpsCache.tla (+ OpsCacheTrace.tla) to the real code (C10, C06).

spec -> code   TLC exports every sequence of link configurations (instance, pinned set,
               q-sequence) together with the instance data and the matrices a fresh build
               must give; `replay_ops` injects the instance through the public
               Mesh/EdgeMesh constructors, drives the REAL MeshOperators.set_link_exponents
               and records one event per call (equal/unequal flags against a freshly
               constructed MeshOperators, identity-row flags, quantised entries).
code -> spec   `natural_run` runs the REAL solver (tdgl.solve) with run-time wrappers on
               TDGLSolver.__init__/update/update_applied_vector_potential/
               adaptive_euler_step/solve_for_observables/get_induced_vector_potential and
               MeshOperators.set_link_exponents, and abstracts what happened into a
               level-"step" trace.  TLC (OpsCacheTrace) decides.

Python only concretises, records and abstracts.  Abstraction functions (DESIGN.md 4.3):
  * applied potential -> integer level: same array as the previous step's -> same level,
    numpy.allclose (rtol 1e-5, atol 1e-8: the closeness the property text names) -> +1, else +2
  * induced potential -> chg in {0, 1}: array_equal with the previous one or not
  * operators -> flags: link_exponents array_equal the latest total potential AND dense
    psi_gradient / psi_laplacian array_equal those of a freshly constructed MeshOperators
  * terminal values -> "eq" (exactly 0 for terminal_psi = 0, within 1e-12 otherwise), "drift",
    "free" (terminal_psi None)
"""
from __future__ import annotations

import json
import os
import tempfile

import numpy as np

from . import core, devices

# Mechanisms (see OpsCache.tla, M*).  PINNED is what the pinned commit does, REPAIRED the
# candidate repairs (exact change test for the applied potential; terminal value re-imposed
# after the Euler step).  Which one the tree under test implements is decided by TLC
# (trace validation under both), and that mechanism is then model-checked.
CODE = dict(MUnitDirs=False, MMemoLpsi=False, MMask=True, MBothHalves=True, MFreshLinks=True, MFixPsi=True, MFixFlag="at_use", MSkipEqual=False,
            MTermInfo="current")
PINNED = dict(MTrigger="prev_close", MReimpose="never", MReimposeOnRetry=True, **CODE)
REPAIRED = dict(MTrigger="exact", MReimpose="configured", MReimposeOnRetry=True, **CODE)

INV_OPS = ["TypeOK", "RefreshEqualsRebuild", "FixedRowsAreIdentity", "NoOtherRowPinned", "LapHermitianOnFreeBlock"]
INV_C10_STEP = ["TypeOK", "RefreshEqualsRebuild", "OperatorsMatchLatestA", "EulerUsesLatestOperators", "NoScreeningNoInduced"]
INV_C06_OPS = ["TypeOK", "FixedRowsAreIdentity", "NoOtherRowPinned"]
INV_C06_STEP = ["TypeOK", "FixedRowsAreIdentity", "NoOtherRowPinned", "PinnedSitesStayPinned", "UnsetMeansFree"]

OPS_DEFAULT = dict(Insts=["strip6", "fan5"], Modes=["none", "terminals", "disabled"], QIds=[1, 2, 3, 4], MaxCalls=6,
                   DForms=["fresh", "inplace", "view"],
                   Scrs=[False], Dyns=[False], Vs=["zero"], Seeds=["configured"], Forms=["keyword"], MaxSteps=0, MaxIter=0, AMax=3, IMax=3)
STEP_DEFAULT = dict(Insts=["fan5"], Modes=["none", "terminals", "disabled"], QIds=[1], MaxCalls=0, DForms=["fresh"],
                    Scrs=[False, True], Dyns=[False, True], Vs=["zero", "nonzero", "none"], Seeds=["configured", "other"],
                    Forms=["keyword", "assign"], MaxSteps=3, MaxIter=1, AMax=3, IMax=3)
TRACE_BOUNDS = dict(Insts=["strip6", "fan5"], Modes=["none", "terminals", "disabled"], QIds=[1], MaxCalls=10 ** 6,
                    DForms=["fresh", "inplace", "view"],
                    Scrs=[False, True], Dyns=[False, True], Vs=["zero", "nonzero", "none"], Seeds=["configured", "other"],
                    Forms=["keyword"], MaxSteps=10 ** 6, MaxIter=10 ** 6, AMax=250, IMax=250)
# device histories (OpsCache.tla, Hists); bounds that do not name them explore the fresh device only
HISTS = ["fresh", "edited", "reset"]


def _set(xs):
    return "{" + ", ".join(core.tla_str(x) for x in xs) + "}"


def cfg_text(bounds, mech, invariants, spec, view=None, extra=""):
    b = bounds
    lines = ["CONSTANTS"]
    for k in ("Insts", "Modes", "QIds", "Scrs", "Dyns", "Vs", "Seeds", "Forms", "DForms"):
        lines.append(f" {k} = {_set(b[k])}")
    lines.append(f" Hists = {_set(b.get('Hists', ['fresh']))}")
    for k in ("MaxCalls", "MaxSteps", "MaxIter", "AMax", "IMax"):
        lines.append(f" {k} = {b[k]}")
    for k, v in dict(CODE, **mech).items():        # a stored mechanism may predate a switch: the code's value
        lines.append(f" {k} = {core.tla_str(v)}")
    lines.append(f"SPECIFICATION {spec}")
    if view:
        lines.append(f"VIEW {view}")
    lines += [f"INVARIANT {i}" for i in invariants]
    lines.append("CHECK_DEADLOCK FALSE")
    return "\n".join(lines) + "\n" + extra


# --------------------------------------------------------------------------- export (spec -> code)


def export_ops(ctx, bounds, name="OpsCache (sequence export)", sample=None):
    """Maximal sequences of SpecOps inside the bounds + instance data and expected matrices.
    sample=None: all of them (exhaustive search); sample=N: about N random behaviours (TLC -simulate, seeded)."""
    cfg = cfg_text(bounds, REPAIRED, ["EmitSeq", "EmitExpected"], "SpecOps")
    kw = {}
    if sample:
        # in simulation mode TLC evaluates the invariants on every successor of the last state: |QIds| leaves per trace
        kw = dict(simulate=f"num={max(1, sample // (len(bounds['QIds']) * len(bounds['DForms'])))}",
                  depth=bounds["MaxCalls"] + 1, workers=1)
    r = ctx.model_check("OpsCache", cfg, name=name, count=False, timeout=1500, **kw)
    seqs, expect = set(), {}
    for line in r.printed():
        if not line.startswith('"{'):
            continue
        d = json.loads(json.loads(line))
        if d["kind"] == "seq":
            seqs.add((d["inst"], d["mode"], tuple(zip(d["seq"], d["forms"]))))
        else:
            expect[(d["inst"], d["mode"], d["q"])] = d
    if not seqs or not expect:
        raise core.MachineryFailure("OpsCache export produced nothing")
    return sorted(seqs), expect


# --------------------------------------------------------------------------- exact instances


def exact_mesh(tdgl, d):
    """Inject the integer instance through the public constructors (DESIGN.md 4.2).
    Only what the operators read is meaningful: edges, directions, edge lengths, dual edge
    lengths (= w * len), cell areas.  Coordinates are placeholders."""
    from tdgl.finite_volume.edge_mesh import EdgeMesh
    from tdgl.finite_volume.mesh import Mesh

    n = d["n"]
    edges = np.array(d["edges"], dtype=np.int64) - 1
    ln = np.array(d["len"], dtype=float)
    w = np.array(d["w"], dtype=float)
    dirs = np.zeros((len(edges), 2))
    for e in range(len(edges)):
        # axis-parallel integer directions of length len[e], signs and axes mixed
        dirs[e] = [(ln[e], 0.0), (0.0, -ln[e]), (-ln[e], 0.0), (0.0, ln[e])][e % 4]
    sites = np.array([[float(i), float((i * i) % 5)] for i in range(n)])
    em = EdgeMesh(centers=np.zeros((len(edges), 2)), edges=edges, boundary_edge_indices=np.arange(0),
                  directions=dirs.copy(), edge_lengths=ln.copy(), dual_edge_lengths=w * ln)
    mesh = Mesh(sites=sites, elements=np.zeros((0, 3), dtype=np.int64), boundary_indices=np.arange(n),
                areas=np.array(d["area"], dtype=float), dual_sites=np.zeros((0, 2)), edge_mesh=em)
    return mesh, dirs           # dirs: the edge vectors as the harness specified them (never read back from the mesh)


def potential_for(dirs, qv):
    """A per-edge vector potential with A . e = q * pi / 2 on every edge; e: the edge vectors the HARNESS specified."""
    d = np.asarray(dirs, dtype=float)
    q = np.asarray(qv, dtype=float)
    return (q * (np.pi / 2) / np.einsum("ij,ij->i", d, d))[:, None] * d


_RAW = {}


def raw_weights(mesh):
    """Edge lengths, Voronoi face lengths and cell areas from the RAW triangulation (mesh.sites, mesh.elements) alone;
    mesh.edge_mesh.edges is only the index map of the edges.  Face lengths: distance between the circumcentres of the two
    triangles sharing the edge, boundary edge: circumcentre to edge midpoint (runobs.raw_geometry).  Cell areas: circumcentric
    construction (refops.geometry) at the sites where it IS the Voronoi cell clipped to the film (well-centred); elsewhere
    the construction says nothing and the mesh's own area is taken.  Also counts the edges opposite an obtuse angle."""
    key = id(mesh)
    if key not in _RAW:
        from . import refops, runobs

        sites, tri = np.asarray(mesh.sites, dtype=float), np.asarray(mesh.elements)
        g = runobs.raw_geometry(sites, tri, mesh.edge_mesh.edges)
        r = refops.geometry(sites, tri)
        area = np.where(r["well_centred"], r["area"], np.asarray(mesh.areas, dtype=float))
        obtuse = 0
        for a in range(3):
            u = sites[tri[:, a]] - sites[tri[:, (a + 2) % 3]]
            v = sites[tri[:, (a + 1) % 3]] - sites[tri[:, (a + 2) % 3]]
            obtuse += int(np.sum(np.einsum("ij,ij->i", u, v) < -1e-12))
        _RAW[key] = dict(mesh=mesh, length=g["edge_lengths"], dual=g["dual"], area=area, obtuse=obtuse,
                         well_centred=int(r["well_centred"].sum()))
    return _RAW[key]


def reference_operators(mesh, A, fixed, fix_psi):
    """Covariant gradient and Laplacian assembled by the harness (dense) for link exponents A (one vector per edge) from
    first principles: U_e = exp(-i A_e . (r_j - r_i)), edge lengths, Voronoi face lengths and cell areas all from the RAW
    site coordinates and triangles (raw_weights) - never EdgeMesh.directions / edge_lengths / dual_edge_lengths.
    Only the edge list (which pair, which orientation, which row) is read from the mesh."""
    sites = np.asarray(mesh.sites, dtype=float)
    em = mesh.edge_mesh
    e0, e1 = np.asarray(em.edges)[:, 0], np.asarray(em.edges)[:, 1]
    d = sites[e1] - sites[e0]
    rw = raw_weights(mesh)
    ln = rw["length"]
    U = np.exp(-1j * np.einsum("ij,ij->i", np.asarray(A, dtype=float), d))
    n, ne = len(sites), len(e0)
    G = np.zeros((ne, n), dtype=complex)
    G[np.arange(ne), e1] = U / ln
    G[np.arange(ne), e0] = -1.0 / ln
    w = rw["dual"] / ln
    a = rw["area"]
    L = np.zeros((n, n), dtype=complex)
    np.add.at(L, (e0, e1), w * U / a[e0])
    np.add.at(L, (e1, e0), w * np.conj(U) / a[e1])
    np.add.at(L, (e0, e0), -w / a[e0])
    np.add.at(L, (e1, e1), -w / a[e1])
    if fix_psi and fixed is not None and len(fixed):
        f = np.asarray(fixed, dtype=int)
        L[f, :] = 0
        L[f, f] = 1
    return G, L


def _matches_reference(ops, A):
    """held psi_gradient / psi_laplacian == reference (relative 1e-9: different order of the same arithmetic gives
    1e-16; a wrong link phase gives 1e-2 or more)"""
    G, L = reference_operators(ops.mesh, A, ops.fixed_sites, ops.fix_psi)
    hg, hl = _dense(ops.psi_gradient), _dense(ops.psi_laplacian)
    return bool(np.max(np.abs(hg - G)) <= 1e-9 * np.max(np.abs(G)) and np.max(np.abs(hl - L)) <= 1e-9 * np.max(np.abs(L)))


def _dense(m):
    return np.asarray(m.toarray() if hasattr(m, "toarray") else m)


def _pin_flags(L, fixed, others=None, expected=None):
    """(class of the rows of `fixed`, some row of `others` (default: every other row) is an identity row,
    the identity rows are EXACTLY the rows of `expected` (default: `fixed`))"""
    n = L.shape[0]
    eye = np.eye(n, dtype=L.dtype)
    is_id = np.all(L == eye, axis=1)
    fixed = np.asarray(fixed, dtype=int)
    if others is None:
        other = np.ones(n, dtype=bool)
        other[fixed] = False
    else:
        other = np.zeros(n, dtype=bool)
        other[np.asarray(others, dtype=int)] = True
    if len(fixed) == 0:
        cls = "na"
    elif is_id[fixed].all():
        cls = "identity"
    elif not is_id[fixed].any():
        cls = "plain"
    else:
        cls = "mixed"
    exp = np.zeros(n, dtype=bool)
    exp[np.asarray(fixed if expected is None else expected, dtype=int)] = True
    return cls, bool(is_id[other].any()), bool(np.array_equal(is_id, exp))


def _quantise(M, scale):
    """Row-scaled entries as Gaussian integers; [] when some entry is not within 1e-9 of one."""
    X = M * np.asarray(scale, dtype=float)[:, None]
    R = np.round(X.real) + 1j * np.round(X.imag)
    if not np.all(np.abs(X - R) < 1e-9):
        return []
    return [[[int(z.real), int(z.imag)] for z in row] for row in R]


def _fresh(tdgl, ops, A, setter=None):
    """A freshly constructed MeshOperators for the same mesh / pinned set and potential A
    (`setter`: the unwrapped set_link_exponents while wrappers are installed)."""
    from tdgl.finite_volume.operators import MeshOperators

    f = MeshOperators(ops.mesh, ops.sparse_solver, fixed_sites=ops.fixed_sites, fix_psi=ops.fix_psi)
    (setter or MeshOperators.set_link_exponents)(f, A)
    return f


def _ops_event(tdgl, ops, A, qid, fixed, first, form="fresh", scale_lap=None, scale_grad=None):
    fresh = _fresh(tdgl, ops, A)
    L, G = _dense(ops.psi_laplacian), _dense(ops.psi_gradient)
    cls, other, exact = _pin_flags(L, fixed, expected=(fixed if ops.fix_psi else []))
    ev = {"ev": "build" if first else "refresh", "q": qid, "form": form, "rowsexact": exact,
          "lap_eq": bool(np.array_equal(L, _dense(fresh.psi_laplacian))),
          "grad_eq": bool(np.array_equal(G, _dense(fresh.psi_gradient))),
          "pinrows": cls, "other": other, "lap": [], "grad": []}
    if scale_lap is None:
        ev["ref_eq"] = _matches_reference(ops, A)       # generated mesh: raw coordinates are meaningful
    if scale_lap is not None:
        ev["lap"] = _quantise(L, scale_lap)
        ev["grad"] = _quantise(G, scale_grad)
    return ev


def replay_ops(tdgl, a, tmp):
    """Replay sequences of link configurations on the REAL MeshOperators built on an injected
    exact instance.  a = dict(inst=<instance record exported by TLC>, mode, fixed (0-based),
    fixpsi, qvs={id: q-vector}, seqs=[[ids...], ...]).  Returns one trace per sequence."""
    from tdgl.finite_volume.operators import MeshOperators
    from tdgl.solver.options import SparseSolver

    d = a["inst"]
    mesh, dirs = exact_mesh(tdgl, d)
    fixed = np.array(a["fixed"], dtype=np.int64)
    pots = {int(k): potential_for(dirs, v) for k, v in a["qvs"].items()}
    out = []
    for seq in a["seqs"]:
        ops = MeshOperators(mesh, SparseSolver.SUPERLU, fixed_sites=fixed, fix_psi=a["fixpsi"])
        deliver = _Deliverer(len(mesh.edge_mesh.edges))
        evs = []
        for qid, form in seq:
            first = ops.psi_gradient is None          # anchored state: first call builds
            ops.set_link_exponents(deliver(pots[qid], form))
            evs.append(_ops_event(tdgl, ops, pots[qid], qid, fixed, first, form,
                                  scale_lap=d["area"], scale_grad=d["len"]))
        out.append(dict(level="ops", inst=d["name"], mode=a["mode"], scr=False, dyn=False, v="zero", seed="configured", form="keyword", v0="zero",
                        exact=True, driven=False, ev=evs))
    return out


class _Deliverer:
    """The equivalent ways a caller can hand the sequence A_1..A_n to set_link_exponents (OpsCache, DForms):
    fresh   - a newly allocated array per call
    inplace - ONE work buffer, overwritten in place, the same object passed again
    view    - a wider base buffer overwritten in place, a view of its first two columns passed (np.asarray
              returns the view itself: no copy; successive views share the base's memory)"""

    def __init__(self, nedges):
        self.base = np.zeros((nedges, 3))       # one memory (the model's bufQ)
        self.work = self.base[:, :2]            # the caller's work array: the object passed again and again

    def __call__(self, A, form):
        if form == "fresh":
            return np.array(A, copy=True)
        self.work[...] = A                      # overwritten in place
        if form == "inplace":
            return self.work                    # the same object
        if form == "view":
            return self.base[:, :2]             # a new view object of the same memory
        raise ValueError(form)


def replay_ops_generated(tdgl, a, tmp):
    """The same on one generated (Triangle/Voronoi) mesh: only the abstract flags are bound.
    Potentials: id 1 zero, others uniform fields / a sheared field / random per-edge values."""
    from tdgl.finite_volume.operators import MeshOperators
    from tdgl.solver.options import SparseSolver

    dev = devices.make(tdgl, a.get("dev", "bar"))
    mesh = dev.mesh
    em = mesh.edge_mesh
    terms = terminal_site_oracle(dev, [rect_corners(r) for r in terminal_rects(a.get("dev", "bar")).values()])[0]
    rng = np.random.default_rng(a.get("seed", 0))
    x, y = em.centers[:, 0], em.centers[:, 1]

    def uniform(B):
        return np.stack([-B * y / 2, B * x / 2], axis=1)

    pots = {1: np.zeros((len(x), 2)), 2: uniform(0.7), 3: uniform(-0.7), 4: np.stack([0.3 * y * y, 0.1 * x], axis=1),
            5: rng.normal(size=(len(x), 2)), 6: uniform(0.7) * (1 + 1e-9), 7: uniform(2.5), 8: rng.normal(size=(len(x), 2)) * 1e-3}
    out = []
    for mode in a["modes"]:
        fixed = terms if mode != "none" else np.array([], dtype=np.int64)
        fixpsi = mode != "disabled"
        for seq in a["seqs"]:
            ops = MeshOperators(mesh, SparseSolver.SUPERLU, fixed_sites=fixed, fix_psi=fixpsi)
            evs = []
            deliver = _Deliverer(len(x))
            for qid, form in seq:
                first = ops.psi_gradient is None
                ops.set_link_exponents(deliver(pots[qid], form))
                evs.append(_ops_event(tdgl, ops, pots[qid], qid, fixed, first, form))
            out.append(dict(level="ops", inst="strip6", mode=mode, scr=False, dyn=False, v="zero", seed="configured", form="keyword", v0="zero",
                            exact=False, driven=False, ev=evs, sites=int(len(mesh.sites))))
    return out


def ops_jobs(seqs, expect, chunk=150):
    """Group the exported sequences by (instance, pinned set) into replay jobs."""
    groups = {}
    for inst, mode, seq in seqs:
        groups.setdefault((inst, mode), []).append([list(c) for c in seq])
    jobs = []
    for (inst, mode), ss in sorted(groups.items()):
        recs = {q: d for (i, m, q), d in expect.items() if i == inst and m == mode}
        any_rec = next(iter(recs.values()))
        instd = dict(name=inst, n=any_rec["n"], edges=any_rec["edges"], w=any_rec["w"], len=any_rec["len"], area=any_rec["area"])
        fixed = [i for i, f in enumerate(any_rec["fixed"]) if f]
        qvs = {q: d["qv"] for q, d in recs.items()}
        for n in range(0, len(ss), chunk):
            jobs.append(("call", dict(module="harness.opscache", func="replay_ops",
                                      args=dict(inst=instd, mode=mode, fixed=fixed, fixpsi=any_rec["fixpsi"], qvs=qvs,
                                                seqs=ss[n:n + chunk]))))
    return jobs


# --------------------------------------------------------------------------- natural runs (code -> spec)


def ramp_vector_potential(x, y, z, *, t, B0=1.0, r1=0.0, T1=0.0, r2=0.0, field_units="mT", length_units="um"):
    """Uniform field B0 * (1 + r1 * min(t, T1) + r2 * max(t - T1, 0)): a ramp with two slopes."""
    from tdgl.sources.constant import constant_field_vector_potential

    g = 1.0 + r1 * min(t, T1) + r2 * max(t - T1, 0.0)
    return constant_field_vector_potential(x, y, z, Bz=B0 * g, field_units=field_units, length_units=length_units)


def _term_class(psi, sites, v):
    if v is None:
        return "free"
    if len(sites) == 0:
        return "eq"
    vals = np.asarray(psi)[sites]
    if v == 0:
        return "eq" if bool(np.all(vals == 0)) else "drift"
    return "eq" if float(np.max(np.abs(vals - v))) <= 1e-12 else "drift"


# --------------------------------------------------------------------------- devices specified by the harness
# Geometry the HARNESS specifies with plain numbers (rectangles by their corner coordinates), so that the oracle
# for "which sites belong to a terminal" never reads geometry back from the package (Device.terminals,
# Polygon.points, Device.terminal_info(), Device.points).  W x H film centred at the origin, in length units.

FILM_W, FILM_H = 5.0, 3.0


def terminal_rects(kind, W=FILM_W, H=FILM_H):
    """name -> (x0, x1, y0, y1): the numbers harness/devices.py passes to tdgl.geometry.box for each kind."""
    r = {}
    if kind in ("bar", "barhole", "tee", "cross"):
        r["source"] = (-W / 2 - 0.05, -W / 2 + 0.05, -H / 2, H / 2)
        r["drain"] = (W / 2 - 0.05, W / 2 + 0.05, -H / 2, H / 2)
    if kind in ("tee", "cross"):
        r["top"] = (-0.75, 0.75, H / 2 - 0.05, H / 2 + 0.05)
    if kind == "cross":
        r["bottom"] = (0.3 - 0.75, 0.3 + 0.75, -H / 2 - 0.05, -H / 2 + 0.05)
    return r


def rect_corners(rect, order="ccw"):
    x0, x1, y0, y1 = rect
    c = np.array([[x0, y0], [x1, y0], [x1, y1], [x0, y1]], dtype=float)
    return c if order == "ccw" else c[::-1].copy()


def transform_points(pts, transform):
    """The harness's own arithmetic for Device.scale / rotate / translate (documented semantics: scale by
    (xfact, yfact) about the origin, rotate counterclockwise by `degrees` about the origin, translate by (dx, dy))."""
    pts = np.array(pts, dtype=float, copy=True)
    for op, arg in transform or []:
        if op == "scale":
            pts = pts * np.array([arg[0], arg[1]], dtype=float)
        elif op == "rotate":
            t = np.deg2rad(arg)
            c, s_ = np.cos(t), np.sin(t)
            pts = np.stack([c * pts[:, 0] - s_ * pts[:, 1], s_ * pts[:, 0] + c * pts[:, 1]], axis=1)
        elif op == "translate":
            pts = pts + np.array([arg[0], arg[1]], dtype=float)
        else:
            raise ValueError(op)
    return pts


def spec_device(tdgl, a):
    """Build the device of a natural run.  Returns (device, [expected terminal polygons as corner arrays, in the
    final coordinates, computed by the harness]).
    a['dev']: kind; a['xi']; a['mel']; a['terminal_form']: how the terminal Polygons are handed to the package:
    'box' (tdgl.geometry.box, many points), 'ccw' / 'cw' (the four corners, either orientation, ring not closed),
    'closed' (five points: first corner repeated); a['transform']: list of ('scale', (fx, fy)) | ('rotate', deg) |
    ('translate', (dx, dy)) applied with Device.scale/rotate/translate BEFORE meshing."""
    kind = a.get("dev", "bar")
    rects = terminal_rects(kind)
    form = a.get("terminal_form", "box")
    transform = a.get("transform")
    if form == "box" and not transform and not a.get("history"):
        dev = devices.make(tdgl, kind, mel=a.get("mel", 0.8), xi=a.get("xi", 1.0))
    else:
        from tdgl.geometry import box, circle

        xi = a.get("xi", 1.0)
        layer = tdgl.Layer(coherence_length=xi, london_lambda=2.0, thickness=0.1, gamma=10.0)
        film = tdgl.Polygon("film", points=box(FILM_W, FILM_H, points=48))
        holes = [tdgl.Polygon("hole", points=circle(0.6, points=16, center=(0.2, 0.1)))] if kind == "barhole" else []
        terms = []
        for name, rect in rects.items():
            if form == "box":
                x0, x1, y0, y1 = rect
                pts = box(x1 - x0, y1 - y0, center=((x0 + x1) / 2, (y0 + y1) / 2))
            elif form in ("ccw", "cw"):
                pts = rect_corners(rect, form)
            elif form == "closed":
                c = rect_corners(rect, "ccw")
                pts = np.vstack([c, c[:1]])
            else:
                raise ValueError(form)
            terms.append(tdgl.Polygon(name, points=pts))
        dev = tdgl.Device(kind, layer=layer, film=film, holes=holes, terminals=terms,
                          probe_points=[(-1.5, 0.0), (1.5, 0.0)], length_units="um")
        for op, arg in transform or []:
            if op == "scale":
                dev = dev.scale(xfact=arg[0], yfact=arg[1])
            elif op == "rotate":
                dev = dev.rotate(arg)
            elif op == "translate":
                dev = dev.translate(dx=arg[0], dy=arg[1])
        dev.make_mesh(max_edge_length=a.get("mel", 0.8), smooth=0)
    polys = [transform_points(rect_corners(r), transform) for r in rects.values()]
    return dev, polys


def _in_polygon(pts, poly):
    """Even-odd ray casting (own implementation), poly: (n, 2) corners, not closed."""
    x, y = pts[:, 0], pts[:, 1]
    inside = np.zeros(len(pts), dtype=bool)
    n = len(poly)
    for k in range(n):
        (x0, y0), (x1, y1) = poly[k], poly[(k + 1) % n]
        if y0 == y1:
            continue
        cond = (y0 > y) != (y1 > y)
        xint = x0 + (y - y0) * (x1 - x0) / (y1 - y0)
        inside ^= cond & (x < xint)
    return inside


def terminal_site_oracle(dev, polys):
    """Geometric, independent classification of the mesh sites with respect to the current terminals.  Uses only
    mesh.sites, mesh.elements, the coherence length and `polys`: the terminal polygons as the HARNESS specified
    them (corner coordinates, transformed by the harness's own arithmetic for derived devices) - never
    Device.terminals / Polygon.points / Polygon.contains_points / Device.terminal_info() / Device.points.
    A site belongs to a terminal iff it is a BOUNDARY site of the triangulation (an end point of an edge that
    occurs in exactly one triangle) and its physical position mesh.sites * xi lies in a terminal polygon.  Sites
    within `tol` of a polygon's outline are AMBIGUOUS (on-the-edge membership is a matter of convention) and are
    constrained by nothing.  Returns (inside, outside): sites that must be pinned / must never be pinned."""
    from collections import Counter

    mesh = dev.mesh
    xi = float(dev.layer.coherence_length)
    pts = np.asarray(mesh.sites, dtype=float) * xi
    tri = np.asarray(mesh.elements)
    cnt = Counter()
    for a, b in ((0, 1), (1, 2), (2, 0)):
        for i, j in zip(tri[:, a], tri[:, b]):
            cnt[(min(i, j), max(i, j))] += 1
    bnd = np.zeros(len(pts), dtype=bool)
    for (i, j), c in cnt.items():
        if c == 1:
            bnd[i] = bnd[j] = True
    scale = float(np.max(np.ptp(pts, axis=0)))
    tol = 1e-6 * scale
    inside = np.zeros(len(pts), dtype=bool)
    ambiguous = np.zeros(len(pts), dtype=bool)
    for poly in polys:
        poly = np.asarray(poly, dtype=float)
        ring = np.vstack([poly, poly[:1]])
        d = np.full(len(pts), np.inf)
        for p, q in zip(ring[:-1], ring[1:]):
            pq = q - p
            L2 = float(pq @ pq)
            t = np.clip(((pts - p) @ pq) / L2, 0.0, 1.0) if L2 > 0 else np.zeros(len(pts))
            d = np.minimum(d, np.linalg.norm(pts - (p + t[:, None] * pq), axis=1))
        inn = _in_polygon(pts, poly)
        near = d <= tol
        inside |= bnd & inn & ~near
        ambiguous |= bnd & near
    ambiguous &= ~inside
    outside = ~inside & ~ambiguous
    return np.flatnonzero(inside).astype(np.int64), np.flatnonzero(outside).astype(np.int64)


def _drive(tdgl, a, has_terminals):
    """Keyword arguments of tdgl.solve that describe the drive of a natural run (currents, applied potential)."""
    kw = {}
    if has_terminals and a.get("current"):
        kw["terminal_currents"] = devices.balanced_currents(a.get("dev", "bar"), a["current"])
    ramp = a.get("ramp")
    if ramp is not None:
        kw["applied_vector_potential"] = tdgl.Parameter(ramp_vector_potential, time_dependent=True, B0=a.get("field", 0.0),
                                                        r1=ramp.get("r1", 0.0), T1=ramp.get("T1", 0.0), r2=ramp.get("r2", 0.0))
    else:
        kw["applied_vector_potential"] = a.get("field", 0.0)
    return kw


def apply_history(tdgl, a, dev, term_polys, work, timing):
    """History of ONE Device object before the observed solve (OpsCache.tla, Hists).  a['history']: list of
      ["look"]                        terminal_info() and points are evaluated (what a script plots / prints)
      ["solve", terminal_psi]         an unobserved short solve with the run's drive ('none' | [re, im])
      ["edit", name, how, arg]        the terminal polygon called `name` is changed IN PLACE:
                                      how = 'translate' (dx, dy) | 'scale' (xfact, yfact) | 'rotate' degrees  ->
                                      Polygon.translate / scale / rotate(..., inplace=True) about the origin;
                                      how = 'points': arg is a transform list, the harness computes the new corners with
                                      its own arithmetic and assigns Polygon.points
      ["mesh", max_edge_length]       Device.make_mesh again
    The expected terminal polygons follow by the harness's own arithmetic (transform_points on the corner numbers it
    specified); nothing is read back from the package.  (A solution computed before an edit cannot seed a run after it:
    tdgl.solve refuses a seed_solution whose device differs.)  Returns (polys, class, info, last solution of the history):
    class 'fresh' (no edit), 'edited' (an edit after a use on the present mesh, not meshed again), 'reset' (edits, but
    nothing evaluated on the present mesh predates the last of them)."""
    names = list(terminal_rects(a.get("dev", "bar")))
    polys = [np.array(p, copy=True) for p in term_polys]
    used = False            # terminal_info() / a solve happened on the present mesh
    stale_possible = False  # ... and a terminal was edited afterwards
    edits, uses, meshes, last = [], 0, 0, None
    before = None           # terminal sites (oracle) at the last use before the first edit on the present mesh
    for n, stp in enumerate(a["history"]):
        op = stp[0]
        if op == "look":
            _ = dev.terminal_info(), dev.points
            used, uses = True, uses + 1
        elif op == "solve":
            so = tdgl.SolverOptions(**dict(timing, solve_time=a.get("history_time", 4 * timing["dt_init"])), save_every=2,
                                    progress_interval=10 ** 9, pause_on_interrupt=False, output_file=os.path.join(work, f"hist{n}.h5"),
                                    include_screening=False, field_units="mT", current_units="uA", terminal_psi=_parse_psi(stp[1]))
            last = tdgl.solve(dev, so, **_drive(tdgl, a, len(polys) > 0))
            used, uses = True, uses + 1
        elif op == "edit":
            _, name, how, arg = stp
            k = names.index(name)
            poly = [t for t in dev.terminals if t.name == name][0]
            if used and before is None:
                before = set(terminal_site_oracle(dev, polys)[0].tolist())
            if how == "translate":
                poly.translate(dx=arg[0], dy=arg[1], inplace=True)
                tr = [("translate", tuple(arg))]
            elif how == "scale":
                poly.scale(xfact=arg[0], yfact=arg[1], inplace=True)
                tr = [("scale", tuple(arg))]
            elif how == "rotate":
                poly.rotate(arg, inplace=True)
                tr = [("rotate", arg)]
            elif how == "points":
                tr = [(o, (tuple(x) if isinstance(x, (list, tuple)) else x)) for o, x in arg]
                poly.points = transform_points(polys[k], tr)
            else:
                raise ValueError(how)
            polys[k] = transform_points(polys[k], tr)
            edits.append(how)
            stale_possible = stale_possible or used
        elif op == "mesh":
            dev.make_mesh(max_edge_length=stp[1], smooth=0)
            used, stale_possible, before, meshes = False, False, None, meshes + 1
        else:
            raise ValueError(op)
    cls = "fresh" if not edits else ("edited" if stale_possible else "reset")
    info = dict(edits=edits, uses=uses, meshes=meshes, cls=cls)
    if cls == "edited":
        after = set(terminal_site_oracle(dev, polys)[0].tolist())
        info.update(stay=len(before & after), enter=len(after - before), leave=len(before - after))
    return polys, cls, info, last


def _parse_psi(tp):
    return None if tp == "none" else (complex(tp[0], tp[1]) if tp[1] else float(tp[0]))


def _psi_class(x):
    return "none" if x is None else ("zero" if x == 0 else "nonzero")


def natural_run(tdgl, a, tmp):
    """One real tdgl.solve observed through wrappers.  a: dev, field (mT), current (uA), steps, dt,
    screening, terminal_psi ('none' | [re, im]), ramp = dict(r1, T1, r2) | None (static field)."""
    import h5py
    from tdgl.finite_volume.operators import MeshOperators
    from tdgl.solver.solver import TDGLSolver

    dev, term_polys = spec_device(tdgl, a)
    remeshed = None
    if a.get("remesh"):
        # mesh-refinement loop on ONE Device object: mesh, look at it, mesh again (finer), then solve
        from tdgl.geometry import box
        d0 = dev
        # coarse film outline: the finer meshing inserts boundary sites, also on the terminals
        film = tdgl.Polygon("film", points=box(5.0, 3.0, points=a.get("film_points", 12)))
        dev = tdgl.Device(d0.name, layer=d0.layer, film=film, holes=d0.holes, terminals=list(d0.terminals),
                          probe_points=d0.probe_points, length_units=d0.length_units)
        counts = []
        for mel in a["remesh"]:
            dev.make_mesh(max_edge_length=mel, smooth=0)
            _ = dev.points, dev.terminal_info()        # what a refinement loop looks at between two meshings
            counts.append((len(dev.mesh.sites), len(terminal_site_oracle(dev, term_polys)[0])))
        remeshed = counts
    v = _parse_psi(a.get("terminal_psi", [0.0, 0.0]))
    dt = a.get("dt", 2.0 ** -6)
    ad = a.get("adaptive")        # dict(dt_init, dt_max, solve_time[, window, max_retries]): adaptive steps with retries
    work = tempfile.mkdtemp(prefix="opsnat", dir=tmp)
    out = os.path.join(work, "out.h5")
    if ad:
        timing = dict(solve_time=ad["solve_time"], dt_init=ad["dt_init"], dt_max=ad["dt_max"], adaptive=True,
                      adaptive_window=ad.get("window", 3), max_solve_retries=ad.get("max_retries", 10))
    else:
        timing = dict(solve_time=a["steps"] * dt - dt / 2, dt_init=dt, adaptive=False)
    common = dict(timing, save_every=1, progress_interval=10 ** 9, pause_on_interrupt=False, output_file=out,
                  include_screening=bool(a.get("screening", False)), field_units="mT", current_units="uA",
                  screening_tolerance=a.get("screening_tol", 1e-3))
    # equivalent API forms of configuring the terminal value (all must give the same pin semantics)
    form = a.get("form", "keyword")
    v0 = _parse_psi(a["psi0"]) if "psi0" in a else v        # value the options object is CONSTRUCTED with
    if form == "keyword":
        opts = tdgl.SolverOptions(**common, terminal_psi=v)
    elif form == "assign":
        opts = tdgl.SolverOptions(**common, terminal_psi=v0)
        opts.terminal_psi = v
    elif form == "replace":
        import dataclasses
        opts = dataclasses.replace(tdgl.SolverOptions(**common, terminal_psi=v0), terminal_psi=v)
    elif form in ("copy", "deepcopy", "pickle"):
        import copy
        import pickle
        base = tdgl.SolverOptions(**common, terminal_psi=v)
        opts = {"copy": copy.copy, "deepcopy": copy.deepcopy, "pickle": lambda o: pickle.loads(pickle.dumps(o))}[form](base)
    elif form == "file":
        pass            # built below (needs the drive): options read back from the file of a short run
    else:
        raise ValueError(form)
    # history of the Device object: used, terminals edited in place, possibly meshed again (same object throughout)
    hist_cls, hist_info, hist_last = "fresh", None, None
    if a.get("history"):
        term_polys, hist_cls, hist_info, hist_last = apply_history(tdgl, a, dev, term_polys, work, timing)
    # the terminal site set is decided geometrically and independently of Device.terminal_info() / Device.points
    tsites, nonterm = terminal_site_oracle(dev, term_polys)
    has_terminals = len(term_polys) > 0
    # ... and, alongside, the documented API: the sites Device.terminal_info() names (C06 anchors: observe_at) must be
    # exactly the pinned ones - the two definitions are checked independently of each other
    _ti = dev.terminal_info()
    api_sites = (np.concatenate([t.site_indices for t in _ti]).astype(np.int64) if _ti else np.array([], dtype=np.int64))
    nsites = len(dev.mesh.sites)
    kw = {}
    if has_terminals and a.get("current"):
        kw["terminal_currents"] = devices.balanced_currents(a.get("dev", "bar"), a["current"])
    ramp = a.get("ramp")
    if ramp is not None:
        kw["applied_vector_potential"] = tdgl.Parameter(ramp_vector_potential, time_dependent=True, B0=a.get("field", 0.0),
                                                        r1=ramp.get("r1", 0.0), T1=ramp.get("T1", 0.0), r2=ramp.get("r2", 0.0))
    else:
        kw["applied_vector_potential"] = a.get("field", 0.0)

    if form == "file":
        pre = tdgl.SolverOptions(**dict(common, output_file=os.path.join(work, "pre.h5"), solve_time=timing["dt_init"] * 1.5),
                                 terminal_psi=v)
        pre_sol = tdgl.solve(dev, pre, **kw)
        opts = tdgl.Solution.from_hdf5(pre_sol.path).options
        opts.output_file = out
        opts.solve_time = timing["solve_time"]
    # seed chain: unobserved runs with other terminal values, each seeded from the previous one; the observed run
    # starts from the last one (seed_solution).  Same device, drive and timing; only terminal_psi differs.
    seed = None
    for n, stp in enumerate(a.get("seed_chain") or []):
        sv = _parse_psi(stp)
        so = tdgl.SolverOptions(**dict(timing, solve_time=a.get("seed_time", 8 * dt)), save_every=4, progress_interval=10 ** 9,
                                pause_on_interrupt=False, output_file=os.path.join(work, f"seed{n}.h5"),
                                include_screening=False, field_units="mT", current_units="uA", terminal_psi=sv)
        seed = tdgl.solve(dev, so, seed_solution=seed, **kw)
    if seed is not None:
        kw["seed_solution"] = seed
        psi_start = np.array(seed.tdgl_data.psi, copy=True)
        seed_cls = "free" if v is None else ("eq" if _term_class(psi_start, tsites, v) == "eq" else "seed")
    else:
        psi_start, seed_cls = None, None

    ev = []
    st = dict(in_update=False, applied=None, induced=None, level=0, seen={}, pending=None, psi_prev=None, psi0=None,
              nonterm_evolved=False, term_evolved=False, max_stale=0.0, first_stale=None, step=-1, unreadable=None,
              refusals=0, retried_steps=0, max_step_mismatch=0.0, later_iter=0, changed_in_step=False, max_dev_after_update=0.0, max_dev_after_retried_update=0.0)
    orig = dict(init=TDGLSolver.__init__, update=TDGLSolver.update, field=TDGLSolver.update_applied_vector_potential,
                euler=TDGLSolver.adaptive_euler_step, obs=TDGLSolver.solve_for_observables,
                induced=TDGLSolver.get_induced_vector_potential, links=MeshOperators.set_link_exponents,
                solve=TDGLSolver.solve_for_psi_squared)

    def ops_flags(ops, A):
        """held operators vs a fresh MeshOperators for potential A (exact, dense)"""
        fresh = _fresh(tdgl, ops, A, orig["links"])
        L = _dense(ops.psi_laplacian)
        eq = bool(np.array_equal(L, _dense(fresh.psi_laplacian))
                  and np.array_equal(_dense(ops.psi_gradient), _dense(fresh.psi_gradient)))
        cls, other, exact = _pin_flags(L, tsites, nonterm, expected=(api_sites if v is not None else []))
        st["ref"] = _matches_reference(ops, A)
        return eq, cls, other, exact

    def latest_total():
        if opts.include_screening:
            return st["applied"] + st["induced"]
        return st["applied"]

    def w_init(self, *args, **kwargs):
        orig["init"](self, *args, **kwargs)
        st["applied"] = np.array(self.current_A_applied, copy=True)
        st["seen"][st["applied"].tobytes()] = 0
        ops = self.operators
        eq, cls, other, exact = ops_flags(ops, st["applied"])
        ev.append({"ev": "ctor", "fresh": bool(eq and np.array_equal(np.asarray(ops.link_exponents), st["applied"])),
                   "pinrows": cls, "other": other, "rowsexact": exact, "ref": st["ref"],
                   "term": seed_cls if seed_cls is not None else _term_class(self.psi_init, tsites, v)})
        st["psi0"] = psi_start if psi_start is not None else np.array(self.psi_init, copy=True)
        st["psi_prev"] = st["psi0"]

    def w_field(self, time):
        A = orig["field"](self, time)
        cur = np.array(A, copy=True)
        prev = st["applied"]
        if np.array_equal(cur, prev):
            lvl = st["level"]
        else:
            lvl = st["level"] + (1 if np.allclose(cur, prev) else 2)
            if cur.tobytes() in st["seen"]:
                st["unreadable"] = "applied potential revisits an earlier value: not representable as a chain level"
            st["seen"][cur.tobytes()] = lvl
        st["level"], st["applied"] = lvl, cur
        ev.append({"ev": "field", "a": lvl})
        return A

    def w_links(self, link_exponents):
        orig["links"](self, link_exponents)
        if not st["in_update"]:
            return
        arg = np.asarray(link_exponents)
        eq, cls, other, exact = ops_flags(self, arg)
        ind = st["induced"] if st["induced"] is not None else 0.0
        ev.append({"ev": "links", "arg_applied": bool(np.array_equal(arg, st["applied"])),
                   "arg_total": bool(np.array_equal(arg, st["applied"] + ind)),
                   "eq": eq, "ref": st["ref"], "pinrows": cls, "other": other, "rowsexact": exact})

    def w_euler(self, step, psi, abs_sq_psi, mu, epsilon, dt_):
        ops = self.operators
        total = latest_total()
        eq, cls, other, exact = ops_flags(ops, total)
        link_eq = bool(np.array_equal(np.asarray(ops.link_exponents), total))
        if not link_eq:
            den = float(np.max(np.abs(total))) or 1.0
            stale = float(np.max(np.abs(np.asarray(ops.link_exponents) - total))) / den
            st["max_stale"] = max(st["max_stale"], stale)
            if st["first_stale"] is None:
                st["first_stale"] = st["step"]
        st["pending"] = {"fresh": bool(eq and link_eq), "ref": st["ref"], "pinrows": cls, "other": other, "rowsexact": exact}
        before = st["refusals"]
        res = orig["euler"](self, step, psi, abs_sq_psi, mu, epsilon, dt_)
        # retried: some evaluation of |psi|^2 was refused (returned None) before the step was accepted
        st["pending"]["retried"] = st["refusals"] > before
        # what the step DID with psi: recompute it with the Laplacian of a freshly built MeshOperators for the total
        # potential in force at this iteration (same per-site formula, same accepted dt) and compare the new psi.
        # Tolerance inside the abstraction: 1e-12 (rounding of identical arithmetic: 0; a stale product: >= 1e-9)
        fresh_ops = _fresh(tdgl, ops, total, orig["links"])
        ref = orig["solve"](psi=psi, abs_sq_psi=abs_sq_psi, mu=mu, epsilon=epsilon, gamma=self.gamma, u=self.u,
                            dt=res[2], psi_laplacian=fresh_ops.psi_laplacian)
        if ref is None:
            mism = float("inf")
        else:
            # compared on the sites that are not pinned (where a re-imposed terminal value may legitimately differ)
            free = np.ones(nsites, dtype=bool)
            free[tsites] = False
            free[api_sites] = False
            mism = float(np.max(np.abs(np.asarray(res[0]) - np.asarray(ref[0]))[free]))
        st["max_step_mismatch"] = max(st["max_step_mismatch"], mism)
        st["pending"]["stepfresh"] = bool(mism <= 1e-12)
        st["later_iter"] += bool(st["changed_in_step"])
        st["step_retried"] = st.get("step_retried", False) or st["pending"]["retried"]
        return res

    def w_solve(**kws):
        r = orig["solve"](**kws)
        if r is None:
            st["refusals"] += 1
        return r

    def w_obs(self, psi, dA_dt):
        if st["pending"] is not None:
            ev.append(dict(ev="euler", **st["pending"], term=_term_class(psi, tsites, v)))
            st["pending"] = None
        return orig["obs"](self, psi, dA_dt)

    def w_induced(self, current_density, A_induced_vals, velocity):
        A_ind, err = orig["induced"](self, current_density, A_induced_vals, velocity)
        new = np.array(A_ind, copy=True)
        ev.append({"ev": "induced", "chg": 0 if np.array_equal(new, st["induced"]) else 1})
        st["changed_in_step"] = st["changed_in_step"] or not np.array_equal(new, st["induced"])
        st["induced"] = new
        return A_ind, err

    def w_update(self, state, running_state, dt_, **kws):
        st["in_update"] = True
        st["changed_in_step"] = False
        st["step"] = int(state["step"])
        st["induced"] = np.array(kws["induced_vector_potential"], copy=True)
        if not self.dynamic_vector_potential:
            st["applied"] = np.array(self.current_A_applied, copy=True)
        try:
            res = orig["update"](self, state, running_state, dt_, **kws)
        finally:
            st["in_update"] = False
        psi = np.asarray(res.psi)
        if v is not None and len(tsites):
            dev_now = float(np.max(np.abs(psi[tsites] - v)))
            st["max_dev_after_update"] = max(st["max_dev_after_update"], dev_now)
            if st.get("step_retried"):
                st["max_dev_after_retried_update"] = max(st["max_dev_after_retried_update"], dev_now)
        st["retried_steps"] += bool(st.get("step_retried"))
        st["step_retried"] = False
        ev.append({"ev": "finish", "term": _term_class(psi, tsites, v), "term_api": _term_class(psi, api_sites, v),
                   "ops_applied": bool(np.array_equal(np.asarray(self.operators.link_exponents), st["applied"]))})
        if len(nonterm) and not np.array_equal(psi[nonterm], st["psi_prev"][nonterm]):
            st["nonterm_evolved"] = True
        if len(tsites) and not np.array_equal(psi[tsites], st["psi_prev"][tsites]):
            st["term_evolved"] = True
        st["psi_prev"] = np.array(psi, copy=True)
        return res

    TDGLSolver.__init__ = w_init
    TDGLSolver.update = w_update
    TDGLSolver.update_applied_vector_potential = w_field
    TDGLSolver.adaptive_euler_step = w_euler
    TDGLSolver.solve_for_observables = w_obs
    TDGLSolver.get_induced_vector_potential = w_induced
    MeshOperators.set_link_exponents = w_links
    TDGLSolver.solve_for_psi_squared = staticmethod(w_solve)
    cwd = os.getcwd()
    aborted = raised = None
    try:
        os.chdir(work)
        try:
            tdgl.solve(dev, opts, **kw)
        except RuntimeError as e:
            # a screening iteration that does not converge / a step that cannot be solved is a documented
            # refusal of the solver (C13 / C02), not an observation about operators or pinning
            if "failed to converge" not in str(e):
                raise
            aborted = str(e)[:200]
        except ValueError as e:
            # the code refuses a device / configuration the harness specified as valid: recorded as an event that no
            # action of the specification accepts ("the code raised where the model continues", DESIGN.md 2.2)
            raised = f"{type(e).__name__}: {e}"[:300]
    finally:
        os.chdir(cwd)
        TDGLSolver.__init__ = orig["init"]
        TDGLSolver.update = orig["update"]
        TDGLSolver.update_applied_vector_potential = orig["field"]
        TDGLSolver.adaptive_euler_step = orig["euler"]
        TDGLSolver.solve_for_observables = orig["obs"]
        TDGLSolver.get_induced_vector_potential = orig["induced"]
        MeshOperators.set_link_exponents = orig["links"]
        TDGLSolver.solve_for_psi_squared = staticmethod(orig["solve"])
    if st["unreadable"]:
        raise RuntimeError(st["unreadable"])
    if aborted:
        return dict(aborted=aborted, info=dict(input=a))
    if raised:
        vc = _psi_class(v)
        md = "none" if not has_terminals else ("disabled" if v is None else "terminals")
        return dict(level="step", inst="fan5", mode=md, scr=bool(opts.include_screening), dyn=ramp is not None,
                    v=("zero" if md == "none" else vc), seed="configured", form=form, v0=vc, exact=False, driven=True,
                    hist=hist_cls, ev=ev + [{"ev": "raised", "error": raised}],
                    info=dict(history=hist_info, sites=nsites, terminal_sites=int(len(tsites)), xi=float(dev.layer.coherence_length), remeshed=remeshed,
                              steps=0, frames=0, retried_steps=0, seeded=False, raised=raised, max_terminal_deviation_after_update=0.0,
                              max_terminal_deviation_after_retried_update=0.0, max_terminal_deviation_in_frames=0.0,
                              max_step_mismatch=0.0, later_iterations_with_new_induced=0, max_relative_staleness=0.0,
                              first_stale_step=None, input=a))
    # saved frames (read with h5py, not through Solution)
    classes, worst = [], 0.0
    with h5py.File(out, "r") as f:
        for key in sorted(f["data"], key=int):
            # frame 0 of a seeded run is the seed state, written before any update: the clause starts at step 1
            if seed is not None and int(f["data"][key].attrs["step"]) < 1:
                continue
            psi = np.array(f["data"][key]["psi"])
            classes.append(_term_class(psi, tsites, v))
            if v is not None and len(tsites):
                worst = max(worst, float(np.max(np.abs(psi[tsites] - v))))
    frames = "free" if v is None else ("drift" if "drift" in classes else "eq")
    psi_end = st["psi_prev"]
    differs = True if v is None else bool(len(nonterm) and np.any(psi_end[nonterm] != v))
    nfin = sum(1 for e in ev if e["ev"] == "finish")
    ev.append({"ev": "end", "frames": frames, "steps": nfin, "nonterm_evolved": bool(st["nonterm_evolved"]),
               "nonterm_differs": differs, "term_evolved": bool(st["term_evolved"])})
    mode = "none" if not has_terminals else ("disabled" if v is None else "terminals")
    vcls = "none" if v is None else ("zero" if v == 0 else "nonzero")
    if mode == "none":
        vcls = "zero"
    return dict(level="step", inst="fan5", mode=mode, scr=bool(opts.include_screening), dyn=ramp is not None, v=vcls,
                seed=("other" if seed_cls == "seed" else "configured"), form=form,
                v0=(_psi_class(v0) if form == "assign" else vcls), exact=False, driven=bool(a.get("field") or a.get("current")), ev=ev,
                hist=(hist_cls if mode != "none" else "fresh"),
                info=dict(history=hist_info, sites=nsites, terminal_sites=int(len(tsites)), xi=float(dev.layer.coherence_length), remeshed=remeshed,
                          edges_opposite_obtuse_angle=raw_weights(dev.mesh)["obtuse"], well_centred_sites=raw_weights(dev.mesh)["well_centred"],
                          ambiguous_sites=int(nsites - len(tsites) - len(nonterm)), max_step_mismatch=st["max_step_mismatch"],
                          later_iterations_with_new_induced=st["later_iter"], frames=len(classes), steps=nfin,
                          max_relative_staleness=st["max_stale"], first_stale_step=st["first_stale"],
                          max_terminal_deviation_in_frames=worst, seeded=seed is not None, retried_steps=st["retried_steps"],
                          refused_evaluations=st["refusals"], max_terminal_deviation_after_update=st["max_dev_after_update"],
                          max_terminal_deviation_after_retried_update=st["max_dev_after_retried_update"], input=a))


# --------------------------------------------------------------------------- validation


def strip(tr):
    return {k: v for k, v in tr.items() if k not in ("info", "sites")}


def trace_cfg(mech, invariants, reporting=True):
    """Trace-validation cfg.  With reporting=True each property clause is evaluated through its
    Tr* wrapper (prints <<"BAD", tid, l, clause>> when false and goes on)."""
    invs = ["Accepted"] + [("Tr" + i if reporting else i) for i in invariants]
    return cfg_text(TRACE_BOUNDS, mech, invs, "TSpec")


def validate(ctx, traces, mech, invariants, what, count_impl=True, parts=4):
    """Batch trace validation (TLC decides).  Returns (accepted: set of indices,
    bad: {index: sorted list of (position, clause)} for traces that reach a state where a
    property clause is false, wall seconds).  The batch is split into `parts` TLC runs.
    `bad` is meaningful for accepted traces only (verdict source 3); a trace that is not
    accepted is not a behaviour of the specification at all (verdict source 2)."""
    import re
    import time
    from concurrent.futures import ThreadPoolExecutor

    if not traces:
        return set(), {}, 0.0
    cfg = trace_cfg(mech, invariants)
    parts = max(1, min(parts, len(traces), sum(len(t["ev"]) for t in traces) // 300 or 1))
    bounds = [round(k * len(traces) / parts) for k in range(parts + 1)]
    from pathlib import Path

    t0 = time.time()

    def one(k):
        lo, hi = bounds[k], bounds[k + 1]
        wd = Path(tempfile.mkdtemp(prefix="tlc_tr", dir=ctx.tmp))      # private: validations may run side by side
        tf = wd / "batch.json"
        tf.write_text(json.dumps([strip(t) for t in traces[lo:hi]]))
        r = core.run_tlc("OpsCacheTrace", cfg, wd, workers=1, timeout=1500, env={"TRACE_FILE": str(tf)})
        return lo, r

    with ThreadPoolExecutor(parts) as ex:
        results = list(ex.map(one, range(parts)))
    accepted, bad = set(), {}
    distinct = generated = 0
    for lo, r in results:
        if r.errors or r.violated or not r.finished:
            raise core.MachineryFailure(f"OpsCacheTrace[{what}]: TLC failed on traces: {r.errors[:3]}\n{r.out[-3000:]}")
        distinct += r.distinct
        generated += r.generated
        for line in r.printed():
            m = re.match(r'<<"ACCEPT", (\d+)>>', line)
            if m:
                accepted.add(lo + int(m.group(1)) - 1)
                continue
            m = re.match(r'<<"BAD", (\d+), (\d+), "(\w+)">>', line)
            if m:
                bad.setdefault(lo + int(m.group(1)) - 1, set()).add((int(m.group(2)), m.group(3)))
    wall = time.time() - t0
    ctx.cov["models"].append({"model": f"OpsCacheTrace[{what}] (trace validation)", "traces": len(traces),
                              "accepted": len(accepted), "traces_reaching_a_false_clause": len(bad),
                              "distinct_states": distinct, "states_generated": generated, "wall_s": round(wall, 2),
                              "mechanism": {k: mech[k] for k in ("MTrigger", "MReimpose", "MReimposeOnRetry")}})
    ctx.cov["states"] += distinct
    ctx.cov["transitions"] += generated
    if count_impl:
        ctx.cov["traces_validated_against_impl"] += len(accepted - set(bad))
    return accepted, {k: sorted(v) for k, v in bad.items()}, wall


def diagnose(ctx, trace, mech, invariants):
    far, violated, tail = ctx.diagnose_trace("OpsCacheTrace", strip(trace), trace_cfg(mech, invariants, reporting=False))
    evs = trace["ev"]
    at = evs[far - 1] if 0 < far <= len(evs) else None
    return far, violated, at, tail


def report_rejected(ctx, what, key, trace, mech, invariants, extra=None):
    """A recorded execution that is not a behaviour of the specification (verdict source 2)."""
    far, violated, at, tail = diagnose(ctx, trace, mech, invariants)
    clause = ",".join(violated) if violated else "no-matching-action"
    evs = trace["ev"]
    short = {k: v for k, v in (at or {}).items() if k not in ("lap", "grad")}
    detail = (f"{what}: execution of the real code is not a behaviour of OpsCache ({clause}); matched "
              f"{max(far - 1, 0)}/{len(evs)} events; stuck at event {far}: {json.dumps(short)[:300]}; input: {key}")
    return ctx.violation(f"{what}:{clause}:{key}", detail,
                         {"trace": trace, "stuck_at": far, "violated": violated, "tlc_tail": tail, "mechanism": mech,
                          **(extra or {})})


def canary(ctx, trace, mech, invariants, mutate, what):
    """Corrupt one accepted trace; TLC must reject it or find a clause false."""
    import copy

    bad = mutate(copy.deepcopy(strip(trace)))
    if bad is None:
        raise core.MachineryFailure(f"{what}: trace cannot carry the canary")
    acc, badc, _ = validate(ctx, [bad], mech, invariants, f"canary {what}", count_impl=False)
    if acc and not badc:
        raise core.MachineryFailure(f"{what}: corrupted trace was accepted - the binding is vacuous")
    ctx.cov["canaries_rejected"] += 1


def identify_mechanism(ctx, traces, switch, values, base, what):
    """Which of the modelled mechanisms does the code under test implement?  Decided by TLC:
    the natural traces are validated (no property clause) under each value of `switch`.
    Returns (value, {value: accepted set}); value None when no mechanism accepts every trace."""
    out = in_parallel([lambda val=val: validate(ctx, traces, dict(base, **{switch: val}), [], f"{what}, {switch}={val}",
                                                count_impl=False) for val in values])
    res = {val: o[0] for val, o in zip(values, out)}
    full = [val for val in values if len(res[val]) == len(traces)]
    return full, res


# --------------------------------------------------------------------------- shared steps of C10 / C06


def model_check(ctx, bounds, mech, invariants, spec, view, name, required=(), **kw):
    """ctx.model_check + vacuity guard (coverage is only required of a run that was completed)."""
    r = ctx.model_check("OpsCache", cfg_text(bounds, mech, invariants, spec, view=view), name=name, coverage=bool(required),
                        timeout=1500, **kw)
    if required and not r.violated:
        cov = r.coverage()
        for a in required:
            if cov.get(a, (0, 0))[1] == 0:
                raise core.MachineryFailure(f"{name}: action {a} never taken (vacuous)")
            ctx.cov["actions_covered"][a] = cov[a][1]
    return r


def in_parallel(thunks):
    """Independent TLC runs side by side (each is a subprocess)."""
    from concurrent.futures import ThreadPoolExecutor

    with ThreadPoolExecutor(max(1, len(thunks))) as ex:
        futs = [ex.submit(t) for t in thunks]
        return [f.result() for f in futs]


OPS_MUTANTS = (("MMask", "FixedRowsAreIdentity"), ("MBothHalves", "RefreshEqualsRebuild"),
               ("MFreshLinks", "RefreshEqualsRebuild"), ("MFixPsi", "NoOtherRowPinned"),
               ("MSkipEqual", "RefreshEqualsRebuild"), ("MUnitDirs", "RefreshEqualsRebuild"))


def ops_level(ctx, pid, invariants, rnd, nsample, mutants=None, short=4):
    """The cache: TLC decides the clauses on SpecOps; modelled mutants of the refresh path must violate them
    (design canaries); sequences are exported for the replay.  Returns replay jobs."""
    quick = ctx.quick
    full = dict(OPS_DEFAULT, QIds=[1, 2, 3, 4] if quick else [1, 2, 3, 4, 5, 6, 7, 8], MaxCalls=6)
    ctx.cov["bounds"]["OpsCache/SpecOps"] = full
    small = dict(OPS_DEFAULT, QIds=[1, 2, 3], MaxCalls=3)
    # (alphabet, length, how many of the maximal sequences are replayed: None = all)
    F, ALL = ["fresh"], ["fresh", "inplace", "view"]
    plan = ([(full["QIds"], 1, None, F), ([1, 2, 3], short, None, F), ([1, 2], 2, None, ALL), ([1, 2, 3, 4], 6, nsample, ALL)]
            if quick else
            [(full["QIds"], 1, None, F), ([1, 2, 3], 6, None, F), ([1, 2, 3, 4], 5, None, F), ([1, 2, 3], 3, None, ALL),
             ([3, 4, 5, 6, 7, 8], 6, nsample, ALL)])
    thunks = [lambda q=q, n=n, t=t, f=f: export_ops(ctx, dict(full, QIds=q, MaxCalls=n, DForms=f), sample=t,
                                                    name=f"OpsCache (export, configurations {q}, delivery {f}, length {n}, "
                                                         f"{'all' if t is None else 'random sample'})") for q, n, t, f in plan]
    thunks.append(lambda: model_check(ctx, full, REPAIRED, invariants, "SpecOps", "ViewOps", f"OpsCache/SpecOps[{pid}]",
                                      required=["OpsBuild", "OpsRefresh", "OpsRefreshAliased", "OpsRefreshFirstAlias"]))
    for switch, inv in (mutants or OPS_MUTANTS):
        thunks.append(lambda switch=switch, inv=inv: ctx.model_check(
            "OpsCache", cfg_text(small, dict(REPAIRED, **{switch: not REPAIRED[switch]}), [inv], "SpecOps", view="ViewOps"),
            name=f"OpsCache/SpecOps[modelled mutant {switch}={not REPAIRED[switch]} must violate {inv}]", expect_violation=inv, count=False))
    res = in_parallel(thunks)
    seqs, expect, exported = [], {}, 0
    for (q, n, take, f), (sq, ex) in zip(plan, res):
        exported += len(sq)
        seqs += sq
        expect.update(ex)
    seqs = sorted(set(seqs))
    ctx.cov["behaviours_exported"] = exported
    ctx.cov["replay_plan"] = [dict(configurations=q, delivery=f, length=n, replayed=("all" if t is None else f"random sample ~{t}"))
                              for q, n, t, f in plan]
    ctx.cov["behaviours_replayed"] = len(seqs)
    ctx.cov["exhaustive"] = False
    jobs = ops_jobs(seqs, expect, chunk=60 if quick else 400)
    gen_seqs = [[list(c) for c in s] for (_, _, s) in seqs[:: max(1, len(seqs) // (40 if quick else 400))]]
    gen_seqs += [[[q, "fresh"] for q in qs] for qs in ([2, 6, 2, 6, 1, 6], [5, 8, 5, 1, 1, 7], [1, 1, 1], [7])]
    gen_seqs += [[[2, "inplace"], [6, "inplace"], [3, "inplace"], [3, "fresh"], [5, "view"], [8, "view"]],
                 [[1, "fresh"], [5, "view"], [7, "inplace"], [7, "inplace"], [2, "view"], [1, "inplace"]]]
    jobs.append(("call", dict(module="harness.opscache", func="replay_ops_generated",
                              args=dict(dev="bar", modes=["none", "terminals", "disabled"], seqs=gen_seqs, seed=ctx.seed))))
    return jobs


def judge_ops_traces(ctx, pid, traces, invariants):
    """Trace validation of the operator-level replays; every rejected trace / false clause is a violation."""
    # vacuity guard of the aliasing dimension: the caller's buffer, already handed in, is overwritten with a
    # DIFFERENT potential and handed in again (same object or a view of the same memory)
    redeliveries = 0
    for tr in traces:
        in_buffer, held_is_buffer = None, False      # content of the work buffer; operators refer to it
        for e in tr["ev"]:
            if e["form"] != "fresh":
                redeliveries += held_is_buffer and in_buffer != e["q"]
                in_buffer = e["q"]
            held_is_buffer = e["form"] != "fresh"
    ctx.cov["aliased_redeliveries_with_new_content"] = redeliveries
    if redeliveries < (30 if ctx.quick else 600):      # (seeded samples gave 87..140 in quick: the guard must not sit at the edge)
        raise core.MachineryFailure(f"{pid}: only {redeliveries} calls re-deliver an overwritten buffer: aliasing is not exercised")
    acc, bad, _ = validate(ctx, traces, REPAIRED, invariants, f"{pid} operator replays", parts=4 if ctx.quick else 8)
    reported = 0
    for n, tr in enumerate(traces):
        key = (f"{tr['inst']}{'' if tr['exact'] else '(generated mesh)'}/{tr['mode']}/q={[e['q'] for e in tr['ev']]}"
               + ("" if all(e["form"] == "fresh" for e in tr["ev"]) else f"/delivery={[e['form'] for e in tr['ev']]}"))
        ctx.note_case((pid, key), len({e["q"] for e in tr["ev"]}) >= 2)
        if n in acc and n not in bad:
            continue
        if reported >= 4:
            ctx.cov["further_failing_traces_not_diagnosed"] = ctx.cov.get("further_failing_traces_not_diagnosed", 0) + 1
            continue
        reported += 1
        if n in acc:                      # a behaviour of the model in which a clause is false
            pos, clause = bad[n][0]
            ctx.violation(f"{pid}:{clause}:ops:{key}",
                          f"{pid}: the real MeshOperators reach a state where {clause} is false at call {pos - 1}: {key}",
                          {"trace": tr, "false_clauses": bad[n]})
        else:
            report_rejected(ctx, f"{pid}:ops", key, tr, REPAIRED, invariants)
    good = [n for n in sorted(acc) if n not in bad]
    return good


def split_aborted(ctx, inputs, traces):
    """Drop natural runs the solver refused (documented RuntimeError); they are listed in the evidence."""
    keep_in, keep_tr = [], []
    for a, t in zip(inputs, traces):
        if "aborted" in t:
            ctx.cov.setdefault("natural_runs_refused_by_the_solver", []).append({"label": a["label"], "error": t["aborted"]})
        else:
            keep_in.append(a)
            keep_tr.append(t)
    return keep_in, keep_tr


def replay_file(ctx, path, invariants):
    """./check Cxx --replay <path>: re-decide one recorded violation on the tree under test.
    model counterexample -> TLC is run again on the stored cfg; natural run -> the input is executed again on the
    real solver and the new trace is validated; operator replay -> the stored trace is validated again."""
    d = json.load(open(path))
    if "cfg" in d:
        r = core.run_tlc(d["module"], d["cfg"], ctx.tmp / "tlc")
        print(f"model {d['module']}: violated={r.violated}")
        print(r.counterexample(4000))
        return 1 if r.violated else 0
    mech = d.get("mechanism", REPAIRED)
    if "input" in d:
        tdgl = core.import_tdgl()
        tr = natural_run(tdgl, d["input"], str(ctx.tmp))
        if "aborted" in tr:
            print("the solver refused the run:", tr["aborted"])
            return 2
    else:
        tr = d["trace"]
    # the mechanism the code conforms to decides (stored one first, then the property-satisfying one)
    for m in (mech, REPAIRED):
        acc, bad, _ = validate(ctx, [tr], m, invariants, "replay", count_impl=False)
        if acc and bad:
            print(f"clauses false: {bad[0][:10]}; info: {tr.get('info')}")
            return 1
        if acc:
            print(f"accepted under {m}, every clause holds")
            return 0
    far, violated, at, tail = diagnose(ctx, tr, REPAIRED, invariants)
    print(f"not a behaviour of OpsCache: stuck at event {far}: "
          f"{json.dumps({k: v for k, v in (at or {}).items() if k not in ('lap', 'grad')})}")
    return 1


def identify_among(ctx, traces, mechs, what):
    """As identify_mechanism, for named candidate mechanisms {label: mech}: returns the labels under which TLC
    accepts every trace (in the order given) and the accepted sets."""
    labels = list(mechs)
    out = in_parallel([lambda lb=lb: validate(ctx, traces, mechs[lb], [], f"{what}, mechanism={lb}", count_impl=False)
                       for lb in labels])
    res = {lb: o[0] for lb, o in zip(labels, out)}
    return [lb for lb in labels if len(res[lb]) == len(traces)], res
