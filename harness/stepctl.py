"""Binding of the StepCtl / ScreenKernel specifications to the real code (C12, C13).

spec -> code   replay_scripts: behaviours exported by TLC (which attempts are refused, the delta
               of every answer, the kernel output of every screening iteration) are executed by the
               REAL TDGLSolver.update on a small meshed device.  Only the physics is scripted, by
               run-time wrappers installed from here (nothing in the repository is edited):
               TDGLSolver.solve_for_psi_squared is replaced by a function that returns None or a
               state whose max|d|psi|^2| is the scripted dyadic delta exactly, and
               tdgl.solver.solver.get_A_induced_numba by a kernel that writes scripted dyadic values.
               What the code did is recorded (every attempt with the dt it was given, every
               set_link_exponents / get_induced_vector_potential call, dt returned, next tentative
               step, iteration count, exceptions) and mapped to the model's fixed-point integers
               (relative 1e-9; anything else is BOT, which no action of the model accepts).
code -> spec   natural_run: the real solver with the real physics (tdgl.solve), observed through
               wrappers that never change arguments or results; floats are abstracted to relation
               flags (see spec/StepCtlTrace.tla, "flags" mode) and stored frames to quantised
               self-consistency mismatches.
kernel         kernel_exact / kernel_random: the real numba kernel and the numpy reference on the
               exact instances printed by TLC (ScreenKernel.tla) and on random instances.

TLC validates every recorded trace; Python only concretises, records and abstracts.
"""
from __future__ import annotations

import copy
import json
import math
import os
import random
import tempfile
from pathlib import Path

from . import core, devices

FT, FD, FA = 24, 16, 24          # fixed-point bits: time, delta, vector potential (FT, FD as in StepCtl.tla)
BOT = -999999999
RTOL_Q = 1e-9                     # abstraction tolerance float -> model integer
RTOL_REL = 1e-12                  # relations between logged floats (natural runs)

MECH = dict(MSliceExtra=False, MClipInit=False, MNeverRaise=False, MMulFirst=False, MTestPrev=False,
            MReturnUnconverged=False, MWarmupRule=False, MEntryPerIteration=False, MGlobalStepCount=False,
            MResetTentative=False, MErrOnIncrement=False)

INV_C12 = ["TypeOK", "DtPositive", "DtAtMostMax", "NonAdaptiveDtIsInit", "RetriesBounded", "ReturnedDtIsAnswered"]
PROP_C12 = ["FirstAttemptUsesTentative", "DtKeptAcrossScreeningIterations", "RetryMultiplies",
            "RetriesExhaustedRaises", "TentativeFollowsWindowRule", "TentativeChangesOnlyAtFinish"]
INV_C13 = ["TypeOK", "AcceptedStepConverged", "AcceptedIterateIsSelfConsistent", "IterationsBounded", "NoScreeningNoInduced", "LinksFollowIterate"]
PROP_C13 = ["NonConvergenceRaises", "ConvergedStops", "PolyakUpdate", "ErrorIsRelativeMismatch",
            "VelocityRestartsEachStep", "DtKeptAcrossScreeningIterations"]
OBS_C12 = ["ObsDtPositive", "ObsDtAtMostMax", "ObsNonAdaptiveDtIsInit"]
OBS_C13 = ["ObsNoScreeningInducedZero", "ObsFrameSelfConsistent"]

SET_KEYS = ["Thermals", "Adaptives", "Screenings", "Windows", "RetrySet", "MulExps", "InitEs", "MaxE4s", "Deltas", "MaxIters",
            "TolExps", "AlphaExps", "BetaQs", "Kicks"]
DEFAULT_BOUNDS = dict(Thermals=[False], MaxThermal=3, Adaptives=[True], Screenings=[False], Windows=[1], RetrySet=[1], MulExps=[1], InitEs=[4],
                      MaxE4s=[5], Deltas=[0, 1024], MaxIters=[2], TolExps=[7], AlphaExps=[1], BetaQs=[4], Kicks=[1],
                      MaxSteps=4, MaxRefusals=2)


def tla_set(xs):
    return "{" + ", ".join(core.tla_str(x) for x in xs) + "}"


def constants_text(bounds, mech=None):
    b = dict(DEFAULT_BOUNDS, **bounds)
    m = dict(MECH, **(mech or {}))
    lines = ["CONSTANTS"] + [f" {k} = {tla_set(b[k])}" for k in SET_KEYS]
    lines += [f" MaxSteps = {b['MaxSteps']}", f" MaxThermal = {b['MaxThermal']}", f" MaxRefusals = {b['MaxRefusals']}"]
    lines += [f" {k} = {'TRUE' if v else 'FALSE'}" for k, v in m.items()]
    return "\n".join(lines) + "\n"


def model_cfg(bounds, mech=None, invariants=(), properties=(), spec="Spec", view=True):
    return (constants_text(bounds, mech) + f"SPECIFICATION {spec}\n" + ("VIEW View\n" if view else "")
            + "".join(f"INVARIANT {i}\n" for i in invariants) + "".join(f"PROPERTY {p}\n" for p in properties)
            + "CHECK_DEADLOCK FALSE\n")


def trace_cfg(invariants=(), properties=()):
    b = dict(MaxSteps=1000000, MaxThermal=1000000, MaxRefusals=1000000)
    # `Accepted` (which prints ACCEPT) is listed LAST: TLC evaluates invariants in the order of the cfg and stops at the
    # first one that is false, so a trace whose final state violates a clause is never reported as accepted
    return model_cfg(b, None, list(invariants) + ["Accepted"], properties, spec="TSpec", view=False)


def export_scripts(ctx, bounds, name="StepCtl (behaviour export)", timeout=600):
    """Every complete behaviour of StepCtl inside the bounds as a replay script."""
    r = ctx.model_check("StepCtl", model_cfg(bounds, None, ["Emit"], view=False), name=name, timeout=timeout, count=False)
    out = []
    for line in r.printed():
        if line.startswith('"{'):
            s = json.loads(json.loads(line))
            s["steps"] = dict(DEFAULT_BOUNDS, **bounds)["MaxSteps"]
            out.append(s)
    return out


# --------------------------------------------------------------------------- abstraction helpers


def q_fixed(x, bits, positive=False):
    """float -> integer count of 2^-bits, or BOT if it is not one (relative RTOL_Q)."""
    x = float(x)
    if not math.isfinite(x) or (positive and x <= 0):
        return BOT
    y = x * 2.0 ** bits
    n = round(y)
    if abs(n) >= 2 ** 30:
        return BOT
    if n == 0:
        return 0 if y == 0 else BOT
    return int(n) if abs(y - n) <= RTOL_Q * abs(n) else BOT


def close(a, b, rtol=RTOL_REL):
    return abs(a - b) <= rtol * max(abs(a), abs(b))


class Patches:
    """Run-time wrappers; always restored (worker processes are reused)."""

    def __init__(self):
        self.saved = []

    def set(self, obj, name, value):
        old = obj.__dict__[name] if isinstance(obj, type) else getattr(obj, name)
        self.saved.append((obj, name, old))
        setattr(obj, name, value)

    def restore(self):
        for obj, name, old in reversed(self.saved):
            setattr(obj, name, old)
        self.saved = []


def classify(exc):
    if isinstance(exc, RuntimeError):
        m = str(exc)
        if m.startswith("Solver failed to converge"):
            return "euler"
        if m.startswith("Screening calculation failed to converge"):
            return "screening"
    return "other:" + type(exc).__name__


def options_for(tdgl, c, **kw):
    dt_init = 2.0 ** -c["inite"]
    dt_max = 2.0 ** -c["maxe"]
    return tdgl.SolverOptions(
        solve_time=1e6, dt_init=dt_init, dt_max=max(dt_max, dt_init), adaptive=c["adaptive"],
        adaptive_window=c["window"], max_solve_retries=c["retries"],
        adaptive_time_step_multiplier=2.0 ** -c["mulexp"], include_screening=c["screening"],
        max_iterations_per_step=c["maxiter"], screening_tolerance=2.0 ** -c["tolexp"],
        screening_step_size=2.0 ** -c["alphaexp"], screening_step_drag=c["betaq"] / 4.0,
        save_every=100, progress_interval=10 ** 9, field_units="mT", current_units="uA", **kw)


# --------------------------------------------------------------------------- spec -> code: scripted replay


def replay_script(tdgl, a, tmp=None):
    """Execute one exported behaviour on the real TDGLSolver.update; returns an "exact" trace."""
    import numpy as np
    from tdgl.finite_volume.operators import MeshOperators
    from tdgl.solver import solver as S
    from tdgl.solver.runner import RunningState
    from tdgl.solver.solver import TDGLSolver

    c = a["cfg"]
    hist = list(a["hist"])
    nsteps = a["steps"]
    dev = devices.make(tdgl, "film", mel=1.5, probes=0)
    opts = options_for(tdgl, c)
    solver = TDGLSolver(dev, opts, applied_vector_potential=0.0)
    ne = solver.num_edges
    even = (np.arange(ne) % 2) == 0
    ev = []
    cur = {"i": 0, "in_update": False, "lastk": [0, 0], "over": 0}

    def q_vec(arr):
        """(edges, 2) array following the two-class pattern -> [a1, a2] in model units, BOT otherwise."""
        arr = np.asarray(arr, dtype=float)
        if arr.ndim == 0:
            arr = np.zeros((ne, 2)) + float(arr)
            arr[:, 1] = 0.0
        if arr.shape != (ne, 2) or np.any(arr[:, 1] != 0.0):
            return [BOT, BOT]
        x = arr[:, 0]
        if np.any(x[even] != x[0]) or np.any(x[~even] != x[1]):
            return [BOT, BOT]
        return [q_fixed(x[0], FA), q_fixed(x[1], FA)]

    def take(kinds):
        i = cur["i"]
        if i < len(hist) and hist[i]["t"] in kinds:
            cur["i"] += 1
            return hist[i]
        cur["over"] += 1
        return None

    def scripted(*, psi, abs_sq_psi, mu, epsilon, gamma, u, dt, psi_laplacian):
        item = take(("R", "A"))
        over = item is None
        if over:     # the code asks for an attempt the behaviour does not contain: answer quietly, TLC rejects
            item = {"t": "A", "d": 0}
        if item["t"] == "R":
            ev.append({"ev": "attempt", "dt": q_fixed(dt, FT, True), "refused": True, "delta": 0})
            return None
        d = item["d"] / 2.0 ** FD
        new_sq = np.array(abs_sq_psi, dtype=float, copy=True)
        new_sq[0] = abs_sq_psi[0] + d
        new_sq[1] = abs_sq_psi[1] - d / 2
        seen = float(np.abs(new_sq - abs_sq_psi).max())
        ev.append({"ev": "attempt", "dt": q_fixed(dt, FT, True), "refused": False,
                   "delta": item["d"] if seen == d else BOT, "over": over})
        return np.array(psi, copy=True), new_sq

    def fake_kernel(J_site, areas, sites, edge_centers, out):
        item = take(("K",))
        k = item["k"] if item is not None else cur["lastk"]
        out[:, 1] = 0.0
        out[even, 0] = k[0] / 2.0 ** FA
        out[~even, 0] = k[1] / 2.0 ** FA

    orig_giv = TDGLSolver.get_induced_vector_potential
    orig_sle = MeshOperators.set_link_exponents

    def giv(self, current_density, A_induced_vals, velocity):
        A_new, err = orig_giv(self, current_density, A_induced_vals, velocity)
        a_q = q_vec(A_new)
        cur["lastk"] = a_q if BOT not in a_q else [0, 0]
        ev.append({"ev": "induced", "k": q_vec(self.new_A_induced), "a": a_q, "v": q_vec(velocity[-1]),
                   "conv": bool(err < self.options.screening_tolerance)})
        return A_new, err

    def sle(self, link_exponents):
        if cur["in_update"]:
            ev.append({"ev": "links", "a": q_vec(np.asarray(link_exponents) - solver.current_A_applied)})
        return orig_sle(self, link_exponents)

    P = Patches()
    try:
        P.set(TDGLSolver, "solve_for_psi_squared", staticmethod(scripted))
        P.set(S, "get_A_induced_numba", fake_kernel)
        P.set(TDGLSolver, "get_induced_vector_potential", giv)
        P.set(MeshOperators, "set_link_exponents", sle)
        names = {"dt": 1}
        if c["screening"]:
            names["screening_iterations"] = 1
        rs = RunningState(names, nsteps + 70)
        vals = dict(psi=solver.psi_init, mu=solver.mu_init, supercurrent=np.zeros(ne), normal_current=np.zeros(ne),
                    induced_vector_potential=np.zeros((ne, 2)))
        t, dt = 0.0, opts.dt_init
        n = 0
        stage1 = bool(c.get("thermal"))          # thermalisation stage first: driven exactly as Runner.run does
        while True:
            if stage1 and cur["i"] < len(hist) and hist[cur["i"]]["t"] == "S":
                # Runner: `Thermalizing` ends; running_state.clear(); time = 0; state["step"] = 0; the previous dt
                # (Runner.dt) and the values carry over; the solver object persists
                cur["i"] += 1
                ev.append({"ev": "restart"})
                stage1, n, t = False, 0, 0.0
                rs.clear()
            if (not stage1 and n >= nsteps) or cur["over"] > 6 or n > 60:
                break
            ev.append({"ev": "begin", "step": n, "tent": q_fixed(solver.tentative_dt, FT, True)})
            cur["in_update"] = True
            try:
                res = solver.update({"step": n, "time": t, "dt": dt}, rs, dt, **vals)
            except Exception as e:  # noqa: the observation is the exception
                ev.append({"ev": "raise", "why": classify(e)})
                break
            finally:
                cur["in_update"] = False
            iters = int(rs.values["screening_iterations"][0, rs.step]) if c["screening"] else 0
            ev.append({"ev": "return", "dt": q_fixed(res.dt, FT, True), "tent": q_fixed(solver.tentative_dt, FT, True),
                       "iters": iters, "a": q_vec(res.A_induced)})
            vals = dict(psi=res.psi, mu=res.mu, supercurrent=res.supercurrent, normal_current=res.normal_current,
                        induced_vector_potential=res.A_induced)
            t += res.dt
            dt = res.dt
            rs.step += 1
            n += 1
    finally:
        P.restore()
    return {"mode": "exact", "cfg": c, "ev": ev, "overrun": cur["over"], "unused": len(hist) - cur["i"],
            "script": {"hist": a["hist"], "raised": a.get("raised", "none"), "steps": nsteps}}


def replay_scripts(tdgl, args, tmp=None):
    return [replay_script(tdgl, a, tmp) for a in args["scripts"]]


def describe_script(s):
    c = s["cfg"]
    h = "".join("R" if e["t"] == "R" else (f"A{e['d']}" if e["t"] == "A" else f"K{e['k'][0]},{e['k'][1]}") + " "
                for e in s["hist"]).strip()
    return (f"thermal={c.get('thermal', False)} adaptive={c['adaptive']} screening={c['screening']} window={c['window']} retries={c['retries']} "
            f"mult=2^-{c['mulexp']} dt_init=2^-{c['inite']} dt_max=2^-{c['maxe']} maxiter={c['maxiter']} "
            f"tol=2^-{c['tolexp']} alpha=2^-{c['alphaexp']} beta={c['betaq']}/4 script=[{h}]")


# --------------------------------------------------------------------------- code -> spec: natural runs


def ref_induced(J_site, areas, sites, edge_centers):
    """Direct double sum A[i,k] = sum_j J[j,k] * areas[j] / |edge_centers[i] - sites[j]| (numpy, float64).
    Checked against ScreenKernel.tla on the exact instances by kernel_exact."""
    import numpy as np

    d = np.asarray(edge_centers, float)[:, None, :] - np.asarray(sites, float)[None, :, :]
    r = np.sqrt(d[..., 0] * d[..., 0] + d[..., 1] * d[..., 1])
    w = np.asarray(areas, float)[None, :] / r
    return w @ np.asarray(J_site, float)


def raw_cell_areas(sites, tri):
    """Voronoi cell areas from the raw triangulation only: every triangle gives each of its vertices the SIGNED
    quadrilateral (vertex, midpoint of one edge, circumcentre, midpoint of the other edge); for an obtuse triangle the
    circumcentre lies outside and the signed pieces still tile the triangle, so the areas sum to the film area."""
    import numpy as np

    P = sites[tri]
    A, B, C = P[:, 0], P[:, 1], P[:, 2]
    d = 2 * (A[:, 0] * (B[:, 1] - C[:, 1]) + B[:, 0] * (C[:, 1] - A[:, 1]) + C[:, 0] * (A[:, 1] - B[:, 1]))
    a2, b2, c2 = (A * A).sum(1), (B * B).sum(1), (C * C).sum(1)
    O = np.stack([(a2 * (B[:, 1] - C[:, 1]) + b2 * (C[:, 1] - A[:, 1]) + c2 * (A[:, 1] - B[:, 1])) / d,
                  (a2 * (C[:, 0] - B[:, 0]) + b2 * (A[:, 0] - C[:, 0]) + c2 * (B[:, 0] - A[:, 0])) / d], axis=1)
    sgn = np.sign(d)

    def cross(u, v):
        return u[:, 0] * v[:, 1] - u[:, 1] * v[:, 0]

    out = np.zeros(len(sites))
    for k in range(3):
        V, N, Q = P[:, k], P[:, (k + 1) % 3], P[:, (k + 2) % 3]
        m1, m2 = 0.5 * (V + N), 0.5 * (V + Q)
        np.add.at(out, tri[:, k], 0.5 * (cross(m1 - V, O - V) + cross(O - V, m2 - V)) * sgn)
    return out


class ScreeningOracle:
    """Reference for the induced potential of a set of edge currents, INDEPENDENT of the code under test: nothing is
    read back from solver / device / mesh helpers (Device.K0, A0, TDGLSolver.areas, Mesh.get_quantity_on_site,
    EdgeMesh.directions ...).  Inputs: the mesh's raw geometry arrays (site coordinates in units of xi, edge index
    pairs, triangles; cell areas are recomputed from sites + triangles by raw_cell_areas) and the layer parameters the harness ASKED for.

      site current   K_j = 1/2 * mean over the edges e at site j of  J_e * u_e      (u_e = unit vector of edge e;
                     the documented unit-direction-weighted average of edge values, in the solver's units)
      potential      A_i = 1/(pi * Lambda) * sum_j K_j * a_j / |r_i - r_j|,   Lambda = lambda^2 / d
                     (mu_0/(4 pi) * K0/A0 with K0 = 4 xi Bc2 / (mu_0 Lambda), A0 = xi Bc2), lengths in device units:
                     r_j = xi * site_j, r_i = the midpoint of edge i, a_j = xi^2 * area_j."""

    def __init__(self, mesh, xi, london_lambda, thickness):
        import numpy as np

        self.np = np
        sites = np.asarray(mesh.sites, float) * xi
        edges = np.asarray(mesh.edge_mesh.edges)
        d = sites[edges[:, 1]] - sites[edges[:, 0]]
        self.unit = d / np.sqrt((d * d).sum(axis=1))[:, None]
        self.edges = edges
        self.sites = sites
        self.centers = 0.5 * (sites[edges[:, 0]] + sites[edges[:, 1]])
        self.count = np.bincount(edges.ravel(), minlength=len(sites)).astype(float)
        Lambda = london_lambda ** 2 / thickness
        self.cell_areas = raw_cell_areas(np.asarray(mesh.sites, float), np.asarray(mesh.elements))     # NOT mesh.areas
        self.weights = self.cell_areas * xi ** 2 / (np.pi * Lambda)

    def site_current(self, J_edge):
        np = self.np
        J_edge = np.asarray(J_edge, float)
        out = np.zeros((len(self.sites), 2))
        for k in (0, 1):
            f = J_edge * self.unit[:, k]
            out[:, k] = (np.bincount(self.edges[:, 0], weights=f, minlength=len(self.sites))
                         + np.bincount(self.edges[:, 1], weights=f, minlength=len(self.sites))) / self.count / 2
        return out

    def induced(self, J_edge):
        return ref_induced(self.site_current(J_edge), self.weights, self.sites, self.centers)


def natural_run(tdgl, p, tmp=None, opts=None):
    """One run of the real solver with real physics; returns a "flags" trace.
    `opts`: a SolverOptions object to RE-USE (natural_history); the fields named in p["reuse_set"] are assigned on it
    as a caller would do between two runs, everything else is left as the previous run left it."""
    import dataclasses
    import h5py
    import numpy as np
    from tdgl.finite_volume.operators import MeshOperators
    from tdgl.solver.solver import TDGLSolver

    sandbox = Path(tempfile.mkdtemp(prefix="stepnat", dir=tmp))
    scale = p.get("scale", 1.0)
    layer_asked = dict(xi=p.get("xi", 1.0), lam=p.get("lam", 2.0), d=p.get("d", 0.1))        # in units of `scale`
    dev = devices.make(tdgl, p.get("dev", "bar"), mel=p.get("mel", 0.8), probes=0,
                       length_units=p.get("length_units", "um"), scale=scale, **layer_asked)
    if p.get("layer_edit") or p.get("translate") or p.get("postprocess"):
        import copy as _copy

        dev = _copy.deepcopy(dev)          # the shared, cached device must not be edited
    if p.get("translate"):
        # history "device moved after meshing": translated IN PLACE (device length units = scale); the reference takes
        # sites and edge midpoints from the raw site coordinates of the moved mesh
        dev.translate(dx=p["translate"][0] * scale, dy=p["translate"][1] * scale, inplace=True)
    adaptive = p.get("adaptive", True)
    screening = p.get("screening", False)
    dt_init = p["dt_init"]
    dt_max_opt = p.get("dt_max", max(0.1, dt_init))
    window = p.get("window", 3)
    mult = p.get("multiplier", 0.25)
    tol = p.get("tol", 1e-3)
    alpha, beta = p.get("alpha", 0.1), p.get("beta", 0.5)
    maxiter = p.get("maxiter", 1000)
    if opts is not None:
        for name, value in p.get("reuse_set", {}).items():
            setattr(opts, name, value)
        opts.output_file = str(sandbox / "out.h5")
    else:
      opts = tdgl.SolverOptions(
        solve_time=p["solve_time"], skip_time=p.get("skip_time", 0.0), dt_init=dt_init, dt_max=dt_max_opt, adaptive=adaptive, adaptive_window=window,
        max_solve_retries=p.get("retries", 10), adaptive_time_step_multiplier=mult, include_screening=screening,
        max_iterations_per_step=maxiter, screening_tolerance=tol, screening_step_size=alpha,
        screening_step_drag=beta, save_every=p.get("k", 5), progress_interval=10 ** 9, pause_on_interrupt=False,
        output_file=str(sandbox / "out.h5"), field_units="mT", current_units="uA",
        terminal_psi=p.get("terminal_psi", 0.0))
    dt_max = dt_max_opt if adaptive else dt_init
    currents = devices.balanced_currents(p.get("dev", "bar"), p["current"]) if p.get("current") else None
    ev = []
    st = {"solver": None, "tent0": None, "last_dt": None, "delta": None, "dlog": [], "A_latest": None, "n_updates": 0,
          "max_retries_seen": 0, "retries_now": 0, "max_iters_seen": 0}
    orig_update = TDGLSolver.update
    orig_solve = TDGLSolver.__dict__["solve_for_psi_squared"].__func__
    orig_giv = TDGLSolver.get_induced_vector_potential
    orig_sle = MeshOperators.set_link_exponents

    def dt_flags(dt):
        return {"pos": bool(dt > 0), "lemax": bool(dt <= dt_max * (1 + RTOL_REL)), "isinit": bool(dt == dt_init)}

    def solve_w(**kw):
        dt = float(kw["dt"])
        res = orig_solve(**kw)
        if st["solver"] is None:      # not inside update (not expected)
            return res
        rels = []
        if close(dt, st["tent0"]):
            rels.append("tent")
        if st["last_dt"] is not None and dt == st["last_dt"]:
            rels.append("keep")
        if st["last_dt"] is not None and close(dt, st["last_dt"] * mult):
            rels.append("mult")
        e = {"ev": "attempt", "refused": res is None, "rels": rels, "dt": dt}
        e.update(dt_flags(dt))
        ev.append(e)
        st["last_dt"] = dt
        if res is None:
            st["retries_now"] += 1
            st["max_retries_seen"] = max(st["max_retries_seen"], st["retries_now"])
        else:
            st["retries_now"] = 0
            # max|d|psi|^2| of this answer against the step's old |psi|^2, which the harness took from the psi handed to
            # update() BEFORE any call (the callee may overwrite its input arrays, so kw["abs_sq_psi"] is not used)
            st["delta"] = float(np.abs(np.asarray(res[1]) - st["old_sq"]).max())
        return res

    def giv_w(self, current_density, A_induced_vals, velocity):
        A_prev = np.array(A_induced_vals[-1], copy=True)
        v_prev = np.array(velocity[-1], copy=True) if not np.isscalar(velocity[-1]) else float(velocity[-1])
        A_new, err = orig_giv(self, current_density, A_induced_vals, velocity)
        K = np.array(self.new_A_induced, copy=True)
        v_new = np.asarray(velocity[-1])
        dA = K - A_prev
        v_exp = (1 - beta) * v_prev + alpha * dA
        A_exp = A_prev + v_exp
        scale_v = max(float(np.abs(v_exp).max()), 1e-300)
        scale_a = max(float(np.abs(A_exp).max()), 1e-300)
        rels = []
        if (np.abs(v_new - v_exp).max() <= RTOL_REL * scale_v and np.abs(np.asarray(A_new) - A_exp).max() <= RTOL_REL * scale_a
                and np.array_equal(np.asarray(A_induced_vals[-1]), np.asarray(A_new))):
            rels.append("polyak")
        # relative mismatch between the kernel output and the iterate that is returned
        err_exp = float(np.max(np.linalg.norm(K - A_exp, axis=1) / np.maximum(np.linalg.norm(A_exp, axis=1), 1e-20)))
        if close(float(err), err_exp, 1e-9):
            rels.append("error")
        K_ref = oracle().induced(np.asarray(current_density))
        if np.abs(K - K_ref).max() <= 1e-10 * max(float(np.abs(K_ref).max()), 1e-300):
            rels.append("kernel")
        ev.append({"ev": "induced", "rels": rels, "conv": bool(err < tol), "err": float(err)})
        st["A_latest"] = np.array(A_new, copy=True)
        return A_new, err

    def sle_w(self, link_exponents):
        s = st["solver"]
        if s is not None and self is s.operators:
            want = np.asarray(s.current_A_applied) + st["A_latest"]
            ev.append({"ev": "links", "rels": ["iterate"] if np.array_equal(np.asarray(link_exponents), want) else []})
        return orig_sle(self, link_exponents)

    def update_w(self, state, running_state, dt, **kw):
        st["solver"] = self
        st["tent0"] = float(self.tentative_dt)
        st["last_dt"] = None
        st["delta"] = None
        st["retries_now"] = 0
        st["A_latest"] = np.array(kw["induced_vector_potential"], copy=True)
        st["old_sq"] = np.absolute(np.array(kw["psi"], copy=True)) ** 2
        step = int(state["step"])
        if step == 0 and st["n_updates"] > 0:
            ev.append({"ev": "restart"})          # Runner restarted the step index: thermalisation is over
            st["restarts"] = st.get("restarts", 0) + 1
            st["updates_before_restart"] = st["n_updates"]
            st["refusals_before_restart"] = sum(1 for e in ev if e["ev"] == "attempt" and e["refused"])
            st["tent_at_restart"] = st["tent0"]
        prev = st.get("prev")
        carried = prev is not None and all(np.array_equal(np.asarray(kw[k]), prev[k]) for k in prev)
        brels = ["carried"] if carried else []
        if st["tent0"] == dt_init:
            brels.append("tentinit")        # the tentative step at entry is the dt_init that was asked for
        ev.append({"ev": "begin", "step": step, "tent": st["tent0"], "rels": brels})
        try:
            res = orig_update(self, state, running_state, dt, **kw)
        except KeyboardInterrupt:
            raise
        except Exception as e:  # noqa
            ev.append({"ev": "raise", "why": classify(e)})
            st["solver"] = None
            raise
        rdt = float(res.dt)
        tent1 = float(self.tentative_dt)
        if adaptive:
            st["dlog"].append(st["delta"])
        rels = []
        if st["last_dt"] is not None and rdt == st["last_dt"]:
            rels.append("last")
        if tent1 == st["tent0"]:
            rels.append("unchanged")
        if adaptive and len(st["dlog"]) >= window and all(d is not None for d in st["dlog"][-window:]):
            mean = sum(st["dlog"][-window:]) / window                      # docs: 1/N sum_{l<N} D_{n-l}
            want = min(0.5 * (rdt + dt_init / max(1e-10, mean)), dt_max)    # docs: min(1/2 (dt + dt_init/delta), dt_max)
            if close(tent1, want, 1e-9):
                rels.append("rule")
        iters = 0
        if screening:
            iters = int(np.asarray(running_state.values["screening_iterations"])[0, running_state.step])
            st["max_iters_seen"] = max(st["max_iters_seen"], iters)
        fl = dt_flags(rdt)
        fl2 = dt_flags(tent1)
        e = {"ev": "return", "rels": rels, "iters": iters, "dt": rdt, "tent": tent1, "delta": st["delta"],
             "pos": fl["pos"] and fl2["pos"], "lemax": fl["lemax"] and fl2["lemax"],
             "isinit": fl["isinit"] and fl2["isinit"],
             "azero": bool(not np.any(np.asarray(res.A_induced)))}
        ev.append(e)
        st["n_updates"] += 1
        st["prev"] = {"psi": np.array(res.psi, copy=True), "mu": np.array(res.mu, copy=True),
                      "induced_vector_potential": np.array(res.A_induced, copy=True)}
        st["solver"] = None
        st["the_solver"] = self
        return res

    # history "layer parameter changed in place between two runs on one device": a first (unobserved) screening run, then
    # e.g. dev.layer.london_lambda = x (Layer is mutable), then the observed run; the oracle uses the values asked for
    if p.get("layer_edit"):
        lo = tdgl.SolverOptions(solve_time=2 * dt_init, dt_init=dt_init, adaptive=False, include_screening=True,
                                screening_tolerance=tol, save_every=5, progress_interval=10 ** 9, pause_on_interrupt=False,
                                output_file=str(sandbox / "before_edit.h5"), field_units="mT", current_units="uA")
        tdgl.solve(dev, lo, applied_vector_potential=p.get("field", 0.0), terminal_currents=currents)
        for name, value in p["layer_edit"].items():
            setattr(dev.layer, {"lam": "london_lambda", "d": "thickness", "xi": "coherence_length"}[name], value * scale)
            layer_asked[name] = value
    _orc = {}

    def oracle():
        if "o" not in _orc:
            _orc["o"] = ScreeningOracle(dev.mesh, layer_asked["xi"] * scale, layer_asked["lam"] * scale, layer_asked["d"] * scale)
        return _orc["o"]

    # history "seeded from another solution": p["seed"] overrides the parameters of a first (unobserved) run on the same
    # device and drive whose Solution is handed to the observed run as seed_solution
    seed_solution = None
    if p.get("seed") is not None:
        sp = dict({k: v for k, v in p.items() if k != "seed"}, **p["seed"])
        so = tdgl.SolverOptions(
            solve_time=sp["solve_time"], dt_init=sp["dt_init"], dt_max=sp.get("dt_max", max(0.1, sp["dt_init"])),
            adaptive=sp.get("adaptive", True), adaptive_window=sp.get("window", 3), include_screening=sp.get("screening", False),
            max_solve_retries=sp.get("retries", 10), adaptive_time_step_multiplier=sp.get("multiplier", 0.25),
            max_iterations_per_step=sp.get("maxiter", 1000),
            screening_tolerance=sp.get("tol", 1e-3), screening_step_size=sp.get("alpha", 0.1), screening_step_drag=sp.get("beta", 0.5),
            save_every=sp.get("k", 5), progress_interval=10 ** 9, pause_on_interrupt=False, output_file=str(sandbox / "seed.h5"),
            field_units="mT", current_units="uA")
        seed_solution = tdgl.solve(dev, so, applied_vector_potential=sp.get("field", 0.0), terminal_currents=currents)
        st["seed_max_induced"] = float(np.abs(seed_solution.tdgl_data.induced_vector_potential).max())
        st["seed_last_dt"] = float(seed_solution.dynamics.dt[-1]) if len(seed_solution.dynamics.dt) else None
        if p.get("postprocess"):
            # history "post-processing between two runs on one device": field / vector potential of the first solution
            z = 0.5 * scale * layer_asked["xi"]
            pos = np.array([[0.0, 0.0, z], [0.3 * scale, -0.2 * scale, 2 * z]])
            seed_solution.field_at_position(pos, vector=False)
            seed_solution.vector_potential_at_position(pos)
            seed_solution = None if p["postprocess"] == "unseeded" else seed_solution
        if p.get("from_file"):
            # history "continue from a stored solution": the Solution AND its options are loaded back from the file and
            # the loaded options object drives the observed run (judged against the literals the harness asked for)
            loaded = tdgl.Solution.from_hdf5(str(sandbox / "seed.h5"))
            seed_solution = loaded
            opts = loaded.options
            opts.solve_time = p["solve_time"]
            opts.output_file = str(sandbox / "out.h5")
    P = Patches()
    raised = None
    try:
        P.set(TDGLSolver, "update", update_w)
        P.set(TDGLSolver, "solve_for_psi_squared", staticmethod(solve_w))
        P.set(TDGLSolver, "get_induced_vector_potential", giv_w)
        P.set(MeshOperators, "set_link_exponents", sle_w)
        opts_before = {k: repr(v) for k, v in dataclasses.asdict(opts).items()}
        try:
            tdgl.solve(dev, opts, applied_vector_potential=p.get("field", 0.0), terminal_currents=currents,
                       seed_solution=seed_solution)
        except Exception as e:  # noqa
            raised = classify(e)
            if not ev or ev[-1]["ev"] != "raise":
                # raised outside update(): an observation iff the exception comes out of the code under test (innermost
                # frame inside the tdgl package: the run refused a legitimate input); a harness problem otherwise
                import traceback

                tb = traceback.extract_tb(e.__traceback__)
                if tb and str(core.REPO.resolve()) in str(Path(tb[-1].filename).resolve()):
                    ev.append({"ev": "raise", "why": raised + ":" + str(e)[:120]})
                else:
                    raise
    finally:
        P.restore()
    # stored frames: self-consistency of what was written (C13 ii, iii)
    frames = []
    out = sandbox / "out.h5"
    s = st.get("the_solver")
    if out.exists() and s is not None:
        with h5py.File(out, "r") as f:
            for name in sorted(f["data"], key=int):
                g = f["data"][name]
                if "induced_vector_potential" not in g:
                    continue
                A = np.asarray(g["induced_vector_potential"])
                J = np.asarray(g["supercurrent"]) + np.asarray(g["normal_current"])
                azero = bool(not np.any(A))
                mism = 0.0
                if screening:
                    A_ref = oracle().induced(J)
                    den = np.maximum(np.linalg.norm(A, axis=1), 1e-20)
                    mism = float(np.max(np.linalg.norm(A - A_ref, axis=1) / den)) if np.any(A) or np.any(A_ref) else 0.0
                q = BOT if not math.isfinite(mism) else int(min(10 ** 8, math.ceil(mism / tol * 1000)))
                fr = {"ev": "frame", "step": int(g.attrs["step"]), "mism": q, "azero": azero, "mism_over_tol": mism / tol}
                frames.append(fr)
    # how tdgl.solve itself ended: a RuntimeError raised inside update must come out of solve
    ev.append({"ev": "solve", "raised": (raised or "none").split(":")[0] if (raised or "none") in ("none", "euler", "screening") else "other"})
    ev.extend(frames)
    # the options object handed to tdgl.solve is the caller's: it must come back unchanged, field by field
    opts_after = {k: repr(v) for k, v in dataclasses.asdict(opts).items()}
    ev.append({"ev": "options", "changed": sorted(k for k in opts_before if opts_after.get(k) != opts_before[k]),
               "fields": len(opts_before)})
    import shutil

    shutil.rmtree(sandbox, ignore_errors=True)
    cfg = dict(thermal=bool(p.get("skip_time", 0.0) > 0), adaptive=adaptive, screening=screening, window=window, retries=p.get("retries", 10), mulexp=1, inite=4,
               maxe=0, maxiter=maxiter, tolexp=7, alphaexp=0, betaq=2)
    if p.get("_keep_opts"):
        p = {k: v for k, v in p.items() if k != "_keep_opts"}
        _KEPT["opts"] = opts
    return {"mode": "flags", "cfg": cfg, "ev": ev, "params": p, "raised": raised,
            "stats": {"seed_max_induced": st.get("seed_max_induced"), "seed_last_dt": st.get("seed_last_dt"), "updates": st["n_updates"], "restarts": st.get("restarts", 0),
                      "updates_before_restart": st.get("updates_before_restart", 0),
                      "refusals_before_restart": st.get("refusals_before_restart", 0),
                      "tent_at_restart": st.get("tent_at_restart"), "max_retries_in_a_step": st["max_retries_seen"],
                      "max_screening_iterations": st["max_iters_seen"], "frames": len(frames),
                      "attempts": sum(1 for e in ev if e["ev"] == "attempt"),
                      "refusals": sum(1 for e in ev if e["ev"] == "attempt" and e["refused"]),
                      "rule_steps": sum(1 for e in ev if e["ev"] == "return" and "rule" in e["rels"] and "unchanged" not in e["rels"]),
                      "unclipped_rule_steps": sum(1 for e in ev if e["ev"] == "return" and "rule" in e["rels"]
                                                  and "unchanged" not in e["rels"] and e["tent"] < dt_max * (1 - 1e-9)),
                      "last_tent": next((e["tent"] for e in reversed(ev) if e["ev"] == "return"), None),
                      "max_frame_mismatch_over_tol": max([f["mism_over_tol"] for f in frames], default=0.0)}}


_KEPT = {}


def natural_history(tdgl, p, tmp=None):
    """Two runs that share ONE SolverOptions object, as a user script would: p["first"] (e.g. dt_init == dt_max), then
    the same object with the fields of p["then_set"] assigned (e.g. a larger dt_max).  Returns the two traces; the second
    is validated against the configuration the CALLER holds (what was asked for), so state leaking from the first run
    into the options object shows as a rejected trace."""
    first = dict(p["first"], _keep_opts=True)
    t1 = natural_run(tdgl, first, tmp)
    opts = _KEPT.pop("opts")
    second = dict(p["first"], **p["then_set"])
    second["reuse_set"] = dict(p["then_set"])
    t2 = natural_run(tdgl, second, tmp, opts=opts)
    t1["params"] = dict(t1["params"], history="first run of a shared options object")
    t2["params"] = dict(t2["params"], history="second run of the same options object", after=p["first"])
    return [t1, t2]


def strip_trace(t):
    """What TLC needs (floats removed: the JSON reader of the trace module handles ints, strings, booleans)."""
    keep = {"ev", "step", "tent", "a", "dt", "refused", "delta", "k", "v", "conv", "iters", "why", "rels", "pos",
            "lemax", "isinit", "azero", "mism", "changed", "raised"}
    ev = []
    for e in t["ev"]:
        d = {k: v for k, v in e.items() if k in keep}
        if t["mode"] == "flags":
            d.pop("dt", None)
            d.pop("tent", None)
            d.pop("delta", None)
        ev.append(d)
    return {"mode": t["mode"], "cfg": t["cfg"], "ev": ev}


# --------------------------------------------------------------------------- kernel


KERNEL_SCALES2 = [0, -30, -20, -10, 10]       # coordinate scales 2^e: about 1e-9, 1e-6, 1e-3, 1, 1e3


def _lcm(xs):
    l = 1
    for x in xs:
        l = l * x // math.gcd(l, x)
    return l


def kernel_exact(tdgl, args, tmp=None):
    """Real numba kernel and numpy reference on exact (Pythagorean) instances -> ScreenKernel traces."""
    import numpy as np
    from tdgl.solver.screening import get_A_induced_numba

    out = []
    for num, inst in enumerate(args["instances"]):
        # coordinate scale c = 2^e (exact in binary): points * c, areas * c^2  =>  the sum scales by exactly c
        # (ScreenKernel.ScaleCovariant); the result is divided by c (exact) before it is mapped to the integers
        e2 = inst.get("scale2", KERNEL_SCALES2[num % len(KERNEL_SCALES2)])
        c = 2.0 ** e2
        sites = np.array(inst["sites"], float) * c
        evals = np.array(inst["evals"], float) * c
        K = np.array(inst["K"], float)
        area = np.array(inst["area"], float) * c * c
        ds = []
        for e in inst["evals"]:
            for s in inst["sites"]:
                d2 = (e[0] - s[0]) ** 2 + (e[1] - s[1]) ** 2
                r = math.isqrt(d2)
                assert r * r == d2 and r > 0
                ds.append(r)
        L = _lcm(ds)
        got = np.empty((len(evals), 2))
        got[:] = np.nan
        get_A_induced_numba(K, area, sites, evals, got)
        ref = ref_induced(K, area, sites, evals)
        got = got / c
        ref = ref / c

        def q(x):
            y = float(x) * L
            n = round(y) if math.isfinite(y) else None
            if n is None or abs(y - n) > 1e-12 * max(1.0, abs(n)) * 10:
                return BOT
            return int(n)

        out.append({"kind": "exact", "sites": inst["sites"], "evals": inst["evals"], "K": inst["K"], "area": inst["area"],
                    "L": L, "got": [[q(v) for v in row] for row in got], "ref": [[q(v) for v in row] for row in ref],
                    "scale2": e2, "tlc": inst.get("A")})
    return out


def kernel_random(tdgl, args, tmp=None):
    """Real kernel vs numpy reference on random instances (arbitrary currents, areas, point sets)."""
    import numpy as np
    from tdgl.solver.screening import get_A_induced_numba

    out = []
    for seed in args["seeds"]:
        rng = np.random.default_rng(seed)
        n = int(rng.integers(1, 160))
        m = int(rng.integers(1, 220))
        ext = 10.0 ** rng.uniform(-9, 3)        # coordinate scale: nanometres expressed in metres ... kilo-units
        sites = rng.uniform(-ext, ext, size=(n, 2))
        kind = seed % 3
        if kind == 0:      # edge centres of a random pairing of the sites (as in a mesh), never on a site
            a, b = rng.integers(0, n, size=m), rng.integers(0, n, size=m)
            b = np.where(a == b, (b + 1) % max(n, 2), b) if n > 1 else b
            evals = 0.5 * (sites[a] + sites[b % n]) + (rng.uniform(-1, 1, size=(m, 2)) * ext * 1e-3 if n == 1 else 0)
        else:
            evals = rng.uniform(-2 * ext, 2 * ext, size=(m, 2))
        J = rng.normal(size=(n, 2)) * 10.0 ** rng.uniform(-3, 3, size=(n, 1))
        area = ext * ext * 10.0 ** rng.uniform(-4, 2, size=n)
        if kind == 2:
            area[rng.integers(0, n)] = 0.0
            J[rng.integers(0, n)] = 0.0
        d = np.sqrt(((evals[:, None, :] - sites[None, :, :]) ** 2).sum(-1))
        if not np.all(d > 1e-9 * ext):
            continue
        got = np.empty((m, 2))
        got[:] = np.nan
        get_A_induced_numba(J, area, sites, evals, got)
        ref = ref_induced(J, area, sites, evals)
        scale = (np.abs(J)[None, :, :] * (area[None, :] / d)[:, :, None]).sum(1)     # sum of |terms|
        scale = np.maximum(scale, 1e-300)
        rel = np.abs(got - ref) / scale
        worst = float(np.nanmax(rel)) if np.all(np.isfinite(got)) else float("inf")
        noarea = ref_induced(J, np.ones(n), sites, evals)
        sens = float(np.max(np.abs(noarea - ref) / scale))
        q = 10 ** 8 if not math.isfinite(worst) else int(min(10 ** 8, math.ceil(worst / 1e-15)))
        out.append({"kind": "random", "q": q, "seed": int(seed), "n": n, "m": m, "log10_extent": round(math.log10(ext), 2),
                    "qnoarea": int(min(10 ** 8, math.ceil(sens / 1e-15)))})
    return out


def kernel_cfg(invariants, spec="TSpec", nsites=3, kidx=(1, 2, 3, 4), areas=(1, 2, 3), randtol=1000):
    return ("CONSTANTS\n NSites = %d\n KIdx = %s\n Areas = %s\n RandTol = %d\nSPECIFICATION %s\n" % (
        nsites, tla_set(list(kidx)), tla_set(list(areas)), randtol, spec)
            + "".join(f"INVARIANT {i}\n" for i in invariants) + "CHECK_DEADLOCK FALSE\n")


# --------------------------------------------------------------------------- validation


def validate(ctx, module, traces, cfg, what, describe, prepare=lambda t: t, max_report=4):
    """Batch validation.  TLC stops at the first violated invariant, so unaccepted traces are
    re-examined one by one: a trace is reported iff TLC rejects it on its own.
    Returns the set of accepted indices."""
    prepared = [prepare(t) for t in traces]
    accepted, r = ctx.validate_traces(module, prepared, cfg, name=f"{module}[{what}]")
    pending = [n for n in range(len(traces)) if n not in accepted]
    reported = 0
    rounds = 0
    while pending and rounds < 40 and reported < max_report:
        rounds += 1
        n = pending[0]
        far, violated, tail = ctx.diagnose_trace(module, prepared[n], cfg)
        evs = prepared[n].get("ev", [None])
        done = far >= len(evs) + 1 if "ev" in prepared[n] else far >= 2
        if done and not violated:
            accepted.add(n)           # only starved by an earlier violation in the batch
        else:
            clause = ",".join(violated) if violated else "no-matching-action"
            # rejected: the event that no action matches is number `far`; invariant violated: the state after
            # consuming event far-1 is the bad one
            k = far - 1 if violated else far
            at = evs[k - 1] if ("ev" in prepared[n] and 0 < k <= len(evs)) else None
            if reported < max_report:
                # a listed known finding (matched by key prefix) does not use up the report budget
                new = ctx.violation(f"{what}:{clause}:{describe(traces[n])}"[:400],
                              f"{what}: execution of the real code is not accepted by {module} ({clause}); matched "
                              f"{max(far - 1, 0)}/{len(evs)} events; {'clause false after' if violated else 'stuck at'} event {k}: "
                              f"{json.dumps(at)[:300]}; "
                              f"input: {describe(traces[n])[:600]}",
                              {"module": module, "trace": traces[n], "stuck_at": far, "violated": violated, "tlc_tail": tail})
                reported += 1 if new else 0
        pending = pending[1:]
        if pending and (violated or not done):
            # the rest may have been starved by this one: validate them again as a batch
            acc2, r2 = ctx.validate_traces(module, [prepared[m] for m in pending], cfg, name=f"{module}[{what}, rest]", count=False)
            for j in sorted(acc2):
                accepted.add(pending[j])
            pending = [m for j, m in enumerate(pending) if j not in acc2]
    if r is not None and r.violated and len(accepted) == len(traces) and not rounds:
        # cannot happen with `Accepted` listed last; kept as a net: a clause was violated but every trace printed ACCEPT
        raise core.MachineryFailure(f"{what}: TLC reports {r.violated} violated but no trace was rejected")
    if pending:
        ctx.cov["further_rejected_traces_not_diagnosed"] = ctx.cov.get("further_rejected_traces_not_diagnosed", 0) + len(pending)
    if pending and not reported:
        ctx.violation(f"{what}:many-rejected", f"{what}: {len(pending)} further traces not accepted (not diagnosed one by one)",
                      {"module": module, "first": traces[pending[0]]})
    ctx.cov["traces_validated_against_impl"] += len(accepted)
    return accepted


CTL_INV = ["TypeOK", "RetriesBounded", "AcceptedStepConverged", "IterationsBounded", "NoScreeningNoInduced"]
CTL_PROP = ["RetriesExhaustedRaises", "NonConvergenceRaises", "ConvergedStops"]


def exact_cfg():
    """Scripted replays: the full actions, every C12 and C13 clause evaluated in every state."""
    return trace_cfg(sorted(set(INV_C12 + INV_C13)), sorted(set(PROP_C12 + PROP_C13)))


def flags_cfg():
    """Natural runs: control parts + relation flags; the clauses on control state and on the reported observations."""
    return trace_cfg(CTL_INV + OBS_C12 + OBS_C13, CTL_PROP)


def describe_trace(t):
    if t["mode"] == "exact":
        return "script: " + describe_script(dict(cfg=t["cfg"], hist=t["script"]["hist"]))
    return "natural run: " + json.dumps(t["params"], sort_keys=True)


def replay_file(ctx, path):
    """`./check <ID> --replay <file>`: re-execute the recorded input on the current tree and re-validate it."""
    from . import runfamily as rf

    rec = json.load(open(path))
    t = rec.get("trace")
    if not t or "mode" not in t:
        print(f"replay file {path} records a model-level or kernel-level case:\n{json.dumps(rec)[:3000]}")
        return 1
    if t["mode"] == "exact":
        job = ("call", dict(module="harness.stepctl", func="replay_script",
                            args=dict(cfg=t["cfg"], hist=t["script"]["hist"], raised=t["script"]["raised"], steps=t["script"]["steps"])))
        cfg = exact_cfg()
    else:
        job = ("call", dict(module="harness.stepctl", func="natural_run", args=t["params"]))
        cfg = flags_cfg()
    traces = rf.replay_all(ctx, [job])
    acc = validate(ctx, "StepCtlTrace", traces, cfg, f"{ctx.pid}/replay", describe_trace, prepare=strip_trace)
    if acc:
        print(f"replay: the recorded input is now accepted (property {ctx.pid} holds on it)")
        return 0
    for v in ctx.violations:
        print(f"VIOLATION property={ctx.pid} replay={v['replay']}\n  what: {v['what']}")
    return 1


def canary(ctx, module, traces, accepted, cfg, mutate, what, prepare=lambda t: t):
    """Corrupt one accepted trace; TLC must reject it.  (Own trace file per call: canaries run concurrently.)"""
    import re
    import uuid

    rnd = random.Random(ctx.seed)
    cands = [n for n in sorted(accepted) if mutate(copy.deepcopy(traces[n])) is not None]
    if not cands:
        raise core.MachineryFailure(f"{what}: no accepted trace can carry the canary")
    n = rnd.choice(cands)
    bad = mutate(copy.deepcopy(traces[n]))
    tdir = ctx.tmp / "canaries"
    tdir.mkdir(exist_ok=True)
    tf = tdir / f"canary_{uuid.uuid4().hex}.json"
    tf.write_text(json.dumps([prepare(bad)]))
    # canaries run concurrently and often share one cfg text: run_tlc names the cfg file after a hash of the text, so a
    # unique comment keeps two threads from writing (and a TLC from reading) the same file at the same time
    r = core.run_tlc(module, cfg + f"\\* canary {tf.stem}\n", ctx.tmp / "tlc", workers=1, timeout=600, env={"TRACE_FILE": str(tf)})
    ctx.cov["models"].append({"model": f"canary[{what}] (trace validation)", "traces": 1, "distinct_states": r.distinct,
                              "wall_s": round(r.wall, 2), "violated": r.violated})
    if r.errors or (not r.finished and not r.violated):
        raise core.MachineryFailure(f"canary[{what}]: TLC failed: {r.errors[:3]}\n{r.out[-2000:]}")
    if not r.violated and any(re.match(r'<<"ACCEPT", \d+>>', line) for line in r.printed()):
        raise core.MachineryFailure(f"{what}: corrupted trace was accepted — the binding is vacuous")
    ctx.cov["canaries_rejected"] += 1


def mut_exact_tent(t):
    """next tentative step off by one unit (2^-24) after a step where the rule applied"""
    if t["mode"] != "exact" or not t["cfg"]["adaptive"]:
        return None
    rets = [e for e in t["ev"] if e["ev"] == "return"]
    if len(rets) <= t["cfg"]["window"] + 1:
        return None
    rets[-1]["tent"] += 1
    return t


def mut_exact_retry(t):
    """a retry that does not multiply: second attempt logged with the dt of the first"""
    if t["mode"] != "exact":
        return None
    for a, b in zip(t["ev"], t["ev"][1:]):
        if a["ev"] == "attempt" and a["refused"] and b["ev"] == "attempt":
            b["dt"] = a["dt"]
            return t
    return None


def mut_exact_drop_raise(t):
    if t["mode"] != "exact" or not t["ev"] or t["ev"][-1]["ev"] != "raise":
        return None
    t["ev"][-1] = {"ev": "return", "dt": 1, "tent": 1, "iters": 0, "a": [0, 0]}
    return t


def mut_exact_polyak(t):
    if t["mode"] != "exact":
        return None
    for e in t["ev"]:
        if e["ev"] == "induced" and BOT not in e["a"]:
            e["a"] = [e["a"][0] + 1, e["a"][1]]
            return t
    return None


def mut_exact_unconverged(t):
    """the last screening iteration of an accepted step reported as not converged"""
    if t["mode"] != "exact":
        return None
    for a, b in zip(t["ev"], t["ev"][1:]):
        if a["ev"] == "induced" and a["conv"] and b["ev"] == "return":
            a["conv"] = False
            return t
    return None


def mut_flags_rule(t):
    if t["mode"] != "flags":
        return None
    for e in t["ev"]:
        if e["ev"] == "return" and "rule" in e["rels"] and "unchanged" not in e["rels"]:
            e["rels"] = [r for r in e["rels"] if r != "rule"] + ["unchanged"]
            return t
    return None


def mut_flags_mult(t):
    if t["mode"] != "flags":
        return None
    for a, b in zip(t["ev"], t["ev"][1:]):
        if a["ev"] == "attempt" and a["refused"] and b["ev"] == "attempt":
            b["rels"] = ["keep"]
            return t
    return None


def mut_flags_frame(t):
    if t["mode"] != "flags" or not t["cfg"]["screening"]:
        return None
    for e in t["ev"]:
        if e["ev"] == "frame" and e["step"] > 0:
            e["mism"] = 3001       # just above FrameTolMultiple (3) x 1000 quanta
            return t
    return None


def mut_flags_conv(t):
    if t["mode"] != "flags":
        return None
    for a, b in zip(t["ev"], t["ev"][1:]):
        if a["ev"] == "induced" and a["conv"] and b["ev"] == "return":
            a["conv"] = False
            return t
    return None


def mut_flags_nonzero(t):
    if t["mode"] != "flags" or t["cfg"]["screening"]:
        return None
    for e in t["ev"]:
        if e["ev"] == "frame":
            e["azero"] = False
            return t
    return None


# --------------------------------------------------------------------------- shared driver for C12 / C13


def prime(ctx):
    """Populate the scratch copy of the spec directory once, so that concurrent TLC runs never copy files."""
    import shutil

    wd = ctx.tmp / "tlc"
    wd.mkdir(parents=True, exist_ok=True)
    for f in core.SPEC.glob("*.tla"):
        dst = wd / f.name
        if not dst.exists() or dst.stat().st_mtime < f.stat().st_mtime:
            shutil.copy2(f, dst)


def run_models(ctx, models, canaries, workers=5):
    """models: (name, bounds, invariants, properties, required_actions); canaries: (switch, bounds, property);
    all TLC runs concurrently.  Returns the results (raises what a run raised)."""
    from concurrent.futures import ThreadPoolExecutor

    prime(ctx)

    def one(m):
        name, b, inv, prop, req = m
        return ctx.model_check("StepCtl", model_cfg(b, None, inv, prop), name=name, required_actions=req,
                               timeout=3000, workers=workers)

    def can(c):
        sw, b, prop = c
        cfg = model_cfg(b, {sw: True}, [], [prop]) if prop in PROP_C12 + PROP_C13 else model_cfg(b, {sw: True}, [prop], [])
        return ctx.model_check("StepCtl", cfg, name=f"StepCtl[seeded {sw}, {prop}]", expect_violation=prop, count=False,
                               workers=2, timeout=600)

    with ThreadPoolExecutor(max_workers=5) as ex:
        futs = [ex.submit(one, m) for m in models] + [ex.submit(can, c) for c in canaries]
        return [f.result() for f in futs]


def in_background(fn, *args):
    from concurrent.futures import ThreadPoolExecutor

    ex = ThreadPoolExecutor(max_workers=1)
    fut = ex.submit(fn, *args)
    ex.shutdown(wait=False)
    return fut


def canaries_concurrently(ctx, items):
    """items: (module, traces, accepted, cfg, mutate, what, prepare)."""
    from concurrent.futures import ThreadPoolExecutor

    with ThreadPoolExecutor(max_workers=6) as ex:
        futs = [ex.submit(canary, ctx, *it) for it in items]
        for f in futs:
            f.result()


def export_many(ctx, exports, workers=4):
    """exports: (name, bounds) -> list of scripts per export, run concurrently."""
    from concurrent.futures import ThreadPoolExecutor

    def one(e):
        name, b = e
        r = ctx.model_check("StepCtl", model_cfg(b, None, ["Emit"], view=False), name=f"StepCtl[export {name}]",
                            timeout=3000, count=False, workers=workers)
        out = []
        for line in r.printed():
            if line.startswith('"{'):
                s = json.loads(json.loads(line))
                s["steps"] = dict(DEFAULT_BOUNDS, **b)["MaxSteps"]
                s["family"] = name
                out.append(s)
        return out

    prime(ctx)
    with ThreadPoolExecutor(max_workers=4) as ex:
        return list(ex.map(one, exports))


def script_relevance(s):
    """A replayed behaviour is non-trivial when it contains a refusal, a screening iteration, or a step to which
    the window rule applies."""
    h = s["hist"]
    answers = sum(1 for e in h if e["t"] == "A")
    return (any(e["t"] in ("R", "K") for e in h) or (s["cfg"]["adaptive"] and s["steps"] > s["cfg"]["window"] + 1
                                                     and answers > s["cfg"]["window"] + 1))


def replay_and_validate(ctx, scripts, naturals, what, chunk=25):
    """Run scripted replays and natural runs on the real code (process pool), validate all traces with TLC.
    Returns (script traces, accepted ids, natural traces, accepted ids)."""
    from . import runfamily as rf

    jobs = []
    for n in range(0, len(scripts), chunk):
        jobs.append(("call", dict(module="harness.stepctl", func="replay_scripts", args=dict(scripts=scripts[n:n + chunk]))))
    nchunks = len(jobs)
    for p in naturals:
        jobs.append(("call", dict(module="harness.stepctl", func="natural_history" if "first" in p else "natural_run", args=p)))
    # long natural runs first would be better for the pool; keep order simple and results aligned
    res = rf.replay_all(ctx, jobs)
    straces = [t for r in res[:nchunks] for t in r]
    ntraces = [t for r in res[nchunks:] for t in (r if isinstance(r, list) else [r])]     # a history yields two traces
    for s, t in zip(scripts, straces):
        ctx.note_case(("script", describe_script(s)), script_relevance(s))
    for t in ntraces:
        ctx.note_case(("natural", json.dumps(t["params"], sort_keys=True)), t["stats"]["attempts"] > 0)
    sacc = set()
    for lo in range(0, len(straces), 8000):      # bounded batches: the trace file is read into TLC's heap
        part = validate(ctx, "StepCtlTrace", straces[lo:lo + 8000], exact_cfg(), f"{what}/scripted", describe_trace, prepare=strip_trace)
        sacc |= {lo + n for n in part}
    nacc = validate(ctx, "StepCtlTrace", ntraces, flags_cfg(), f"{what}/natural", describe_trace, prepare=strip_trace) if ntraces else set()
    return straces, sacc, ntraces, nacc


def mut_flags_options(t):
    """the run rewrote a field of the caller's options object"""
    if t["mode"] != "flags" or not t["ev"] or t["ev"][-1]["ev"] != "options":
        return None
    t["ev"][-1]["changed"] = ["adaptive"]
    return t
