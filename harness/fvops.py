"""Binding of spec/FVOps.tla (+ FVOpsTrace.tla) to tdgl.finite_volume.operators  (C03, C04).

spec -> code : TLC enumerates the instance universe of FVOps and prints every complete instance
               (mesh, weights, link phases) as JSON; `replay_exact` injects the instance into the REAL
               code through the public constructors Mesh(...) / EdgeMesh(...), realises the link phases
               as A.e = q pi/2, calls build_divergence / build_gradient / build_laplacian /
               build_neumann_boundary_laplacian / MeshOperators.set_link_exponents / get_supercurrent and
               records the dense matrices as exact Gaussian rationals.
code -> spec : the recorded trace is validated by TLC against FVOpsTrace (every entry equal to the TLA+
               definition; the identities evaluated on the code's matrices).  Float meshes
               (`float_trace`) are abstracted to integer residuals (quanta of 1e-13 of the scale) of
               code == formula (harness/refops.py, itself validated by TLC on the exact instances) and of
               the identities; TLC validates them as few-state traces.
C04 run level: `gauge_run_pair` runs the real solver twice in two gauges and returns the quantised
               gauge-invariant observables for the Twin specification.

Python only concretises, records and abstracts; every verdict is TLC's.
"""
from __future__ import annotations

import copy
import json
import math
import os
import random
import shutil
import tempfile
from fractions import Fraction

import numpy as np

from . import core, refops

QUANTUM = 1e-13          # residual quantum on float meshes (relative to the scale of the compared quantity)
FLOAT_TOL = 1000         # quanta: 1e-10 relative; rounding noise is ~1e-15..1e-14, effects of interest >= 1e-3
MESH_NAMES = ["T1", "S4", "F5", "S5", "C5", "A6", "D6", "G4", "G7"]

INV_MODEL_C03 = ["TypeOK", "InstanceWellFormed", "LapIsDivGrad", "WeightedDivSumsToZero", "BoundaryFluxIntegrates",
                 "WeightedLapSymmetric", "WeightedLapNegSemiDef", "KernelIsConstants", "GradExactOnLinear",
                 "CovLapHermitian", "PinnedRowsOnly"]
INV_MODEL_C04 = ["TypeOK", "GaugeCovariant", "SupercurrentGaugeInvariant"]
INV_TRACE_C03 = ["TrAssembledObeyIdentities", "TrLapIsDivGrad", "TrWeightedDivSumsToZero", "TrBoundaryFluxIntegrates", "TrWeightedLapSymmetric",
                 "TrWeightedLapNegSemiDef", "TrKernelIsConstants", "TrGradExactOnLinear", "TrCovLapHermitian"]
INV_TRACE_C04 = ["TrGaugeCovariant"]


# ------------------------------------------------------------------ cfg texts


def tla_set(xs):
    return "{" + ", ".join(str(x) for x in xs) + "}"


def model_cfg(mesh_ids, patterns, maxfree, with_gauge, invariants, emit=False):
    return ("CONSTANTS\n MeshIds = %s\n Patterns = %s\n MaxFree = %d\n WithGauge = %s\nSPECIFICATION Spec\n"
            % (tla_set(mesh_ids), tla_set(patterns), maxfree, "TRUE" if with_gauge else "FALSE")
            + "".join(f"INVARIANT {i}\n" for i in invariants)
            + ("INVARIANT %s\n" % ("EmitGauge" if emit == "gauge" else "Emit") if emit else "")
            + "CHECK_DEADLOCK FALSE\n")


def trace_cfg(invariants, strict=True, accepted=True):
    return ("CONSTANTS\n MeshIds = {1}\n Patterns = {0}\n MaxFree = 0\n WithGauge = FALSE\n Strict = %s\n FloatTol = %d\n"
            "SPECIFICATION TSpec\n" % ("TRUE" if strict else "FALSE", FLOAT_TOL)
            + ("INVARIANT Accepted\n" if accepted else "")
            + "".join(f"INVARIANT {i}\n" for i in invariants) + "CHECK_DEADLOCK FALSE\n")


def export_instances(result):
    """Instances printed by the Emit invariant of FVOps (one JSON record per complete instance)."""
    out = []
    for line in result.printed():
        if line.startswith('"{'):
            out.append(json.loads(json.loads(line)))
    return out


# ------------------------------------------------------------------ exact numbers


def grat(z, maxden=10 ** 6, tol=1e-12):
    """complex -> [re, im, den] in lowest terms (the normal form of FVOps), or [0, 0, 0] (bottom:
    not a small Gaussian rational within tol -- equal to no value of the specification)."""
    z = complex(z)
    fr = []
    for x in (z.real, z.imag):
        if not math.isfinite(x):
            return [0, 0, 0]
        f = Fraction(x).limit_denominator(maxden)
        if abs(x - float(f)) > tol * max(1.0, abs(x)):
            return [0, 0, 0]
        fr.append(f)
    d = fr[0].denominator * fr[1].denominator // math.gcd(fr[0].denominator, fr[1].denominator)
    a, b = int(fr[0] * d), int(fr[1] * d)
    if max(abs(a), abs(b), d) >= 2 ** 30:
        return [0, 0, 0]
    return [a, b, d]


def gmat(A):
    A = np.asarray(A)
    return [[grat(x) for x in row] for row in A]


def gvec(v):
    return [grat(x) for x in np.asarray(v)]


def qint(x, tol=1e-9):
    r = round(float(x))
    return int(r) if abs(float(x) - r) <= tol * max(1.0, abs(r)) else 0


# ------------------------------------------------------------------ concretisation of an exact instance

SOLVER_OPTIONS = ["superlu", "umfpack", "pardiso", "cupy"]      # the documented values of SolverOptions.sparse_solver


def assembled_operators(tdgl, mesh):
    """What MeshOperators.build_operators() ASSEMBLES for every documented value of the sparse_solver option:
    {option: (divergence, mu_gradient, mu_laplacian, mu_boundary_laplacian, note)} as dense arrays.  The matrices are
    assigned before any factorisation / backend call, so a missing backend (pypardiso, cupy, umfpack) or an exactly
    singular factor does not prevent looking at them; what was raised is kept as a note."""
    import scipy.sparse as sp
    from tdgl.finite_volume import operators as ops_mod
    from tdgl.solver.options import SparseSolver

    names = [s.value for s in SparseSolver]
    if sorted(names) != sorted(SOLVER_OPTIONS):
        raise core.MachineryFailure(f"sparse_solver options changed: {names} (FVOpsTrace.AsmPaths must follow)")
    out = {}
    for solver in SparseSolver:
        mo = ops_mod.MeshOperators(mesh, solver, fixed_sites=np.array([], dtype=np.int64), fix_psi=True)
        note = ""
        try:
            mo.build_operators()
        except (RuntimeError, AssertionError, ImportError, ModuleNotFoundError, NameError, TypeError) as e:
            note = f"{type(e).__name__}: {str(e)[:60]}"
        finally:
            sp.linalg.use_solver(useUmfpack=False)
        mats = []
        for attr in ("divergence", "mu_gradient", "mu_laplacian", "mu_boundary_laplacian"):
            M = getattr(mo, attr, None)
            if M is None:
                raise core.MachineryFailure(f"MeshOperators({solver.value}).{attr} was not assembled ({note})")
            mats.append(np.asarray(M.toarray() if hasattr(M, "toarray") else M))
        out[solver.value] = (*mats, note)
    return out


def concretise(tdgl, m):
    """Build the REAL Mesh / EdgeMesh objects of an integer instance through their public constructors."""
    from tdgl.finite_volume.edge_mesh import EdgeMesh
    from tdgl.finite_volume.mesh import Mesh

    sites = np.array(m["pos"], dtype=float)
    edges = np.array(m["edges"], dtype=np.int64) - 1
    bidx = np.array(m["bidx"], dtype=np.int64) - 1
    dirs = np.array(m["dir"], dtype=float)
    em = EdgeMesh(centers=sites[edges].mean(axis=1), edges=edges, boundary_edge_indices=bidx, directions=dirs,
                  edge_lengths=np.array(m["len"], dtype=float), dual_edge_lengths=np.array(m["dual"], dtype=float))
    bsites = sorted(set(int(s) for s in edges[bidx].ravel()))
    # (dual sites / Voronoi polygons are not part of an abstract instance; placeholders so that the mesh can be saved)
    ntri = len(m["tris"])
    mesh = Mesh(sites, np.array(m["tris"], dtype=np.int64) - 1, boundary_indices=bsites,
                areas=np.array(m["area"], dtype=float), dual_sites=np.zeros((ntri, 2)), edge_mesh=em,
                voronoi_polygons=[np.zeros((3, 2)) for _ in range(len(sites))])
    return mesh


def restored(mesh):
    """The mesh after Mesh.to_hdf5 / Mesh.from_hdf5 (the full mesh, as every saved Device / Solution carries it)."""
    import h5py
    from tdgl.finite_volume.mesh import Mesh

    with h5py.File(f"restored-{id(mesh)}.h5", "w", driver="core", backing_store=False) as f:
        mesh.to_hdf5(f.create_group("mesh"))
        if not Mesh.is_restorable(f["mesh"]):
            raise core.MachineryFailure("the saved mesh is not restorable: the round trip would recompute it")
        return Mesh.from_hdf5(f["mesh"])


def link_exponents(dirs, q):
    """A vector potential on the edges with A.e_ij = q pi/2 exactly enough (rounding ~1e-16)."""
    dirs = np.asarray(dirs, dtype=float)
    q = np.asarray(q, dtype=float)
    return (q * (np.pi / 2) / (dirs ** 2).sum(axis=1))[:, None] * dirs


def psi_samples(n, rnd):
    """A few Gaussian-integer order parameters: two polarisation vectors and two random ones."""
    out = []
    k, mm = rnd.sample(range(n), 2)
    for z in (1, 1j):
        v = np.zeros(n, dtype=complex)
        v[k] = 1
        v[mm] = z
        out.append(v)
    for _ in range(2):
        out.append(np.array([complex(rnd.randint(-2, 2), rnd.randint(-2, 2)) for _ in range(n)]))
    return out


def replay_exact(tdgl, a, tmp):
    """Replay one instance of the FVOps universe (or an explicit one, mi = 0) into the real code.
    a: dict(mi, pat, geo, q, mesh, chi (list in 0..3), heavy, seed)."""
    from tdgl.finite_volume import operators as ops_mod
    from tdgl.finite_volume.mesh import Mesh
    from tdgl.solver.options import SparseSolver

    m = a["mesh"]
    n, ne = m["n"], len(m["edges"])
    rnd = random.Random(a.get("seed", 0))
    mesh = concretise(tdgl, m)
    arr = refops.arrays_of(mesh)
    q = list(a["q"])
    zeros = [0] * ne
    A = link_exponents(m["dir"], q)
    ev = []

    def op(name, src, path, qq, M, fixed=()):
        ev.append({"ev": "op", "op": name, "src": src, "path": path, "q": list(qq), "m": gmat(M), "fixed": [int(x) + 1 for x in fixed]})

    # -- the builders (code)
    full = a.get("profile", "full") == "full"
    if full:
        op("div", "code", "build", zeros, ops_mod.build_divergence(mesh).toarray())
        op("grad", "code", "build", zeros, ops_mod.build_gradient(mesh).toarray())
        op("lap", "code", "build", zeros, ops_mod.build_laplacian(mesh)[0].toarray())
        op("neumann", "code", "build", zeros, ops_mod.build_neumann_boundary_laplacian(mesh).toarray())
    op("covgrad", "code", "build", q, ops_mod.build_gradient(mesh, link_exponents=A).toarray())
    op("covlap", "code", "build", q, ops_mod.build_laplacian(mesh, link_exponents=A)[0].toarray())
    # -- what MeshOperators.build_operators() assembles, for every documented sparse_solver option
    for sv, (aD, aG, aL, aB, _) in (assembled_operators(tdgl, mesh).items() if full else ()):
        op("div", "code", "asm:" + sv, zeros, aD)
        op("grad", "code", "asm:" + sv, zeros, aG)
        op("lap", "code", "asm:" + sv, zeros, aL)
        op("neumann", "code", "asm:" + sv, zeros, aB)
    # -- MeshOperators: first call builds (with another configuration), second call refreshes in place
    mo = ops_mod.MeshOperators(mesh, SparseSolver.SUPERLU, fixed_sites=np.array([], dtype=np.int64), fix_psi=True)
    q0 = [(x + 1 + e) % 4 for e, x in enumerate(q)]
    mo.set_link_exponents(link_exponents(m["dir"], q0))
    mo.set_link_exponents(A)
    op("covgrad", "code", "refresh", q, mo.psi_gradient.toarray())
    op("covlap", "code", "refresh", q, mo.psi_laplacian.toarray())
    # -- MeshOperators of a device with terminals: some boundary sites are "fixed"; psi pinned there (terminal_psi a number:
    #    fix_psi=True) or not (terminal_psi=None: fix_psi=False); first build and refresh in place
    fixed = sorted(set(int(x) for x in np.array(m["edges"])[m["bidx"][0] - 1] - 1))
    for flag, tag in (((True, "pin"), (False, "nopin")) if full else ()):
        mp = ops_mod.MeshOperators(mesh, SparseSolver.SUPERLU, fixed_sites=np.array(fixed, dtype=np.int64), fix_psi=flag)
        mp.set_link_exponents(A)
        op("covgrad", "code", tag + ":build", q, mp.psi_gradient.toarray(), fixed)
        op("covlap", "code", tag + ":build", q, mp.psi_laplacian.toarray(), fixed)
        mp.set_link_exponents(link_exponents(m["dir"], q0))
        mp.set_link_exponents(A)
        op("covgrad", "code", tag + ":refresh", q, mp.psi_gradient.toarray(), fixed)
        op("covlap", "code", tag + ":refresh", q, mp.psi_laplacian.toarray(), fixed)
    # -- the same mesh after a round trip through HDF5 (Mesh.to_hdf5 / Mesh.from_hdf5)
    rmesh = restored(mesh) if full else None
    if full:
      op("div", "code", "restored", zeros, ops_mod.build_divergence(rmesh).toarray())
      op("grad", "code", "restored", zeros, ops_mod.build_gradient(rmesh).toarray())
      op("lap", "code", "restored", zeros, ops_mod.build_laplacian(rmesh)[0].toarray())
      op("neumann", "code", "restored", zeros, ops_mod.build_neumann_boundary_laplacian(rmesh).toarray())
      op("covgrad", "code", "restored", q, ops_mod.build_gradient(rmesh, link_exponents=A).toarray())
      op("covlap", "code", "restored", q, ops_mod.build_laplacian(rmesh, link_exponents=A)[0].toarray())
    # -- the reference formulas (refops), validated by TLC on the same instance
    theta = refops.theta_of(A, arr["directions"])
    if full:
        op("div", "ref", "formula", zeros, refops.divergence(n, arr["edges"], arr["dual"], arr["area"]))
        op("grad", "ref", "formula", zeros, refops.gradient(n, arr["edges"], arr["length"]))
        op("lap", "ref", "formula", zeros, refops.laplacian(n, arr["edges"], arr["dual"], arr["length"], arr["area"]))
        op("neumann", "ref", "formula", zeros, refops.neumann(n, arr["edges"], arr["bidx"], arr["length"], arr["area"]))
    op("covgrad", "ref", "formula", q, refops.gradient(n, arr["edges"], arr["length"], theta))
    op("covlap", "ref", "formula", q, refops.laplacian(n, arr["edges"], arr["dual"], arr["length"], arr["area"], theta))
    # -- supercurrent
    psis = psi_samples(n, rnd)
    for psi in psis:
        ev.append({"ev": "js", "src": "code", "q": q, "psi": gvec(psi), "v": gvec(mo.get_supercurrent(psi))})
    ev.append({"ev": "js", "src": "ref", "q": q, "psi": gvec(psis[-1]),
               "v": gvec(refops.supercurrent(arr["edges"], arr["length"], theta, psis[-1]))})
    # -- gauge transformation chi = c pi/2: A.e -> A.e + chi_j - chi_i (not reduced mod 2 pi), psi -> psi exp(i chi)
    c = list(a["chi"])
    e0 = np.array(m["edges"])[:, 0] - 1
    e1 = np.array(m["edges"])[:, 1] - 1
    q2raw = np.array(q) + np.array(c)[e1] - np.array(c)[e0]
    q2 = [int(x) % 4 for x in q2raw]
    ev.append({"ev": "gauge", "c": c})
    mo.set_link_exponents(link_exponents(m["dir"], q2raw))
    ev.append({"ev": "gop", "op": "covgrad", "path": "refresh", "q": q2, "m": gmat(mo.psi_gradient.toarray())})
    ev.append({"ev": "gop", "op": "covlap", "path": "refresh", "q": q2, "m": gmat(mo.psi_laplacian.toarray())})
    phase = np.array([1j ** int(x) for x in c])
    for k, psi in enumerate(psis):
        psi2 = phase * psi
        ev.append({"ev": "gjs", "n": k + 1, "q": q2, "psi": gvec(psi2), "v": gvec(mo.get_supercurrent(psi2))})
    # -- geometric instances: the geometry the real code computes from the integer coordinates
    if a.get("geo") and full:
        gm = Mesh.from_triangulation(np.array(m["pos"], dtype=float), np.array(m["tris"], dtype=np.int64) - 1)
        gem = gm.edge_mesh
        where = {tuple(sorted(map(int, e))): k for k, e in enumerate(gem.edges)}
        idx = [where[tuple(sorted((i - 1, j - 1)))] for i, j in m["edges"]]
        ev.append({"ev": "geom", "src": "code", "len": [qint(gem.edge_lengths[k]) for k in idx],
                   "dual": [qint(gem.dual_edge_lengths[k]) for k in idx], "area": [qint(x) for x in gm.areas]})
        # ... and the first-principles weights of refops.geometry (the reference for the weights on float meshes)
        fp = refops.geometry(np.array(m["pos"], dtype=float), np.array(m["tris"], dtype=np.int64) - 1)
        where = {tuple(map(int, e)): k for k, e in enumerate(fp["edges"])}
        idx = [where[tuple(sorted((i - 1, j - 1)))] for i, j in m["edges"]]
        ev.append({"ev": "geom", "src": "ref", "len": [qint(fp["length"][k]) for k in idx],
                   "dual": [qint(fp["dual"][k]) for k in idx], "area": [qint(x) for x in fp["area"]]})
    return {"kind": "exact", "profile": a.get("profile", "full"), "mi": a["mi"], "pat": a["pat"], "geo": bool(a.get("geo")), "heavy": bool(a.get("heavy")),
            "comps": 0, "mesh": m, "ev": ev, "label": a.get("label", "")}


# ------------------------------------------------------------------ explicit exact instances (outside the TLC universe)

TOPOLOGIES = {
    "strip6": dict(pos=[(0, 0), (4, 0), (8, 0), (2, 3), (6, 3), (10, 3)],
                   tris=[(1, 2, 4), (2, 5, 4), (2, 3, 5), (3, 6, 5)]),
    "fan6": dict(pos=[(0, 0), (5, 0), (4, 3), (1, 5), (-3, 4), (-5, 0)],
                 tris=[(1, 2, 3), (1, 3, 4), (1, 4, 5), (1, 5, 6)]),
    "hex7": dict(pos=[(0, 0), (6, 0), (3, 4), (-3, 4), (-6, 0), (-3, -4), (3, -4)],
                 tris=[(1, 2, 3), (1, 3, 4), (1, 4, 5), (1, 5, 6), (1, 6, 7), (1, 7, 2)]),
    "sq9": dict(pos=[(0, 0), (3, 0), (6, 0), (1, 3), (4, 3), (7, 3), (2, 6), (5, 6), (8, 6)],
                tris=[(1, 2, 4), (2, 5, 4), (2, 3, 5), (3, 6, 5), (4, 5, 7), (5, 8, 7), (5, 6, 8), (6, 9, 8)]),
}


def random_instance(rnd, name):
    """An explicit integer instance: topology from TOPOLOGIES, random orientation/order of the edges, random
    positive integer lengths, dual lengths (w = dual/len rational) and areas, random links."""
    t = TOPOLOGIES[name]
    count = {}
    for tri in t["tris"]:
        for x, y in ((tri[0], tri[1]), (tri[1], tri[2]), (tri[2], tri[0])):
            k = (min(x, y), max(x, y))
            count[k] = count.get(k, 0) + 1
    edges = []
    for (x, y) in count:
        edges.append([x, y] if rnd.random() < 0.6 else [y, x])
    rnd.shuffle(edges)
    bidx = [k + 1 for k, e in enumerate(edges) if count[(min(e), max(e))] == 1]
    rnd.shuffle(bidx)
    pos = [list(p) for p in t["pos"]]
    mesh = dict(n=len(pos), edges=edges, bidx=bidx, tris=[list(x) for x in t["tris"]], pos=pos,
                dir=[[pos[j - 1][0] - pos[i - 1][0], pos[j - 1][1] - pos[i - 1][1]] for i, j in edges],
                len=[rnd.randint(1, 7) for _ in edges], dual=[rnd.randint(1, 9) for _ in edges],
                area=[rnd.randint(1, 9) for _ in pos])
    return dict(mi=0, pat=0, geo=False, q=[rnd.randint(0, 3) for _ in edges], mesh=mesh,
                chi=[rnd.randint(0, 3) for _ in pos], heavy=False, seed=rnd.randint(0, 10 ** 6), label=f"random/{name}")


def lattice_patch(nx, ny):
    """A geometric integer instance: nx x ny sites of the lattice with basis (48,0),(24,32) (acute; integer edge
    lengths 48,40,40, Voronoi duals 14,30 / 7,15 on the boundary); geometry by the documented formulas."""
    pos, idx = [], {}
    for b in range(ny):
        for a_ in range(nx):
            idx[(a_, b)] = len(pos) + 1
            pos.append([48 * a_ + 24 * b, 32 * b])
    tris = []
    for b in range(ny - 1):
        for a_ in range(nx - 1):
            tris.append([idx[(a_, b)], idx[(a_ + 1, b)], idx[(a_, b + 1)]])
            tris.append([idx[(a_ + 1, b)], idx[(a_ + 1, b + 1)], idx[(a_, b + 1)]])
    count = {}
    for tri in tris:
        for x, y in ((tri[0], tri[1]), (tri[1], tri[2]), (tri[2], tri[0])):
            k = (min(x, y), max(x, y))
            count[k] = count.get(k, 0) + 1
    edges = [list(k) for k in sorted(count)]
    length, dual = [], []
    for (i, j) in edges:
        dx, dy = pos[j - 1][0] - pos[i - 1][0], pos[j - 1][1] - pos[i - 1][1]
        horizontal = dy == 0
        length.append(48 if horizontal else 40)
        full = 14 if horizontal else 30
        dual.append(full if count[(i, j)] == 2 else full // 2)
    area = [0] * len(pos)
    for k, (i, j) in enumerate(edges):
        area[i - 1] += length[k] * dual[k]
        area[j - 1] += length[k] * dual[k]
    assert all(x % 4 == 0 for x in area)
    area = [x // 4 for x in area]
    mesh = dict(n=len(pos), edges=edges, bidx=[k + 1 for k, e in enumerate(edges) if count[tuple(e)] == 1], tris=tris, pos=pos,
                dir=[[pos[j - 1][0] - pos[i - 1][0], pos[j - 1][1] - pos[i - 1][1]] for i, j in edges],
                len=length, dual=dual, area=area)
    return mesh


def lattice_instance(rnd, nx, ny):
    mesh = lattice_patch(nx, ny)
    return dict(mi=0, pat=0, geo=True, q=[rnd.randint(0, 3) for _ in mesh["edges"]], mesh=mesh,
                chi=[rnd.randint(0, 3) for _ in mesh["pos"]], heavy=False, seed=rnd.randint(0, 10 ** 6),
                label=f"lattice/{nx}x{ny}")


# ------------------------------------------------------------------ float meshes


def quanta(x, y, scale=None):
    """|x - y|_max relative to the scale of the compared quantities, in quanta of 1e-13 (integer, capped)."""
    x = np.asarray(x)
    y = np.asarray(y)
    if scale is None:
        scale = max(float(np.abs(x).max(initial=0.0)), float(np.abs(y).max(initial=0.0)))
    scale = max(scale, 1e-300)
    r = float(np.abs(x - y).max(initial=0.0)) / scale
    if not math.isfinite(r):
        return 10 ** 9
    return int(min(10 ** 9, math.ceil(r / QUANTUM)))


def make_float_mesh(tdgl, a):
    """Generated meshes: meshpy through Device.make_mesh (optionally smoothed, with holes), structured acute
    lattices, random Delaunay triangulations through Mesh.from_triangulation."""
    from tdgl.finite_volume.mesh import Mesh
    from tdgl.geometry import box, circle

    kind = a["kind"]
    rng = np.random.default_rng(a.get("seed", 0))
    if kind == "device":
        layer = tdgl.Layer(coherence_length=a.get("xi", 1.0), london_lambda=2.0, thickness=0.1, gamma=10.0)
        W, H = a.get("size", (5.0, 3.0))
        film = tdgl.Polygon("film", points=box(W, H, points=a.get("points", 40)))
        if a.get("notch"):          # a re-entrant corner of the outline
            film = film.difference(tdgl.Polygon(points=box(1.0, 1.2, center=(0.5, H / 2 - 0.3)))).resample(a.get("points", 40) + 8)
            film.name = "film"
        if a.get("shape") == "disk":
            film = tdgl.Polygon("film", points=circle(W / 2, points=a.get("points", 40)))
        holes = []
        for k, (cx, cy, r) in enumerate(a.get("holes", [])):
            holes.append(tdgl.Polygon(f"hole{k}", points=circle(r, points=14, center=(cx, cy))))
        terms = []
        if a.get("terminals"):
            terms = [tdgl.Polygon("source", points=box(0.1, H, center=(-W / 2, 0))),
                     tdgl.Polygon("drain", points=box(0.1, H, center=(W / 2, 0)))]
        dev = tdgl.Device("d", layer=layer, film=film, holes=holes, terminals=terms, length_units="um")
        dev.make_mesh(max_edge_length=a.get("mel", 0.6), smooth=a.get("smooth", 0))
        a["_device"] = dev
        if a.get("translate"):
            # the meshed device moved rigidly: in place, or temporarily inside `with device.translation(dx, dy)`
            dx, dy = a["translate"]
            if a.get("context"):
                with dev.translation(dx, dy):
                    mesh = dev.mesh                  # the mesh the solver would see while translated
                    if not np.allclose(mesh.sites.mean(axis=0) * a.get("xi", 1.0), np.array([dx, dy]), atol=0.5):
                        raise core.MachineryFailure("the mesh inside device.translation(...) did not move")
                a["_device"] = None                  # on leaving the context the device moved back
                return mesh
            dev.translate(dx, dy, inplace=True)
        return dev.mesh
    if kind == "polygon":
        # Polygon.make_mesh(min_points, smooth): for smooth >= 1 the submesh comes from Mesh.smooth itself
        W, H = a.get("size", (5.0, 3.0))
        film = tdgl.Polygon("film", points=box(W, H, points=a.get("points", 40)))
        if a.get("notch"):
            film = film.difference(tdgl.Polygon(points=box(1.0, 1.2, center=(0.5, H / 2 - 0.3))))
        return film.make_mesh(min_points=a.get("min_points", 150), smooth=a.get("smooth", 0))
    if kind == "smoothed":
        # Mesh.smooth(n) (create_submesh=True) applied to a mesh obtained by another route
        return make_float_mesh(tdgl, dict(a["base"])).smooth(a["n"])
    if kind == "lattice":
        nx, ny, s = a["nx"], a["ny"], a.get("scale", 0.37)
        b1, b2 = np.array(a.get("b1", (4.0, 0.0))) * s, np.array(a.get("b2", (2.0, 3.0))) * s
        pts, idx = [], {}
        for j in range(ny):
            for i in range(nx):
                idx[(i, j)] = len(pts)
                pts.append(i * b1 + j * b2)
        tris = []
        for j in range(ny - 1):
            for i in range(nx - 1):
                tris.append([idx[(i, j)], idx[(i + 1, j)], idx[(i, j + 1)]])
                tris.append([idx[(i + 1, j)], idx[(i + 1, j + 1)], idx[(i, j + 1)]])
        return Mesh.from_triangulation(np.array(pts), np.array(tris))
    if kind == "delaunay":
        from scipy.spatial import Delaunay

        nb, nin = a.get("nb", 10), a.get("nin", 60)
        # regular boundary of the unit square (so that boundary triangles are not encroached) + random interior
        t = np.linspace(0, 1, nb, endpoint=False)
        bpts = np.concatenate([np.c_[t, 0 * t], np.c_[1 + 0 * t, t], np.c_[1 - t, 1 + 0 * t], np.c_[0 * t, 1 - t]])
        h = 1.0 / nb
        inner = []
        while len(inner) < nin:
            p = rng.uniform(0.6 * h, 1 - 0.6 * h, size=2)
            if all(np.hypot(*(p - q)) > 0.45 * h for q in inner):
                inner.append(p)
        pts = np.concatenate([bpts, np.array(inner)])
        tri = Delaunay(pts)
        return Mesh.from_triangulation(pts, tri.simplices)
    raise ValueError(kind)


def float_trace(tdgl, a, tmp):
    """code -> spec on one generated float mesh: residual facts as integers."""
    from scipy.sparse.csgraph import connected_components
    import scipy.sparse as sp
    from tdgl.finite_volume import operators as ops_mod
    from tdgl.solver.options import SparseSolver

    a = dict(a)
    try:
        mesh = make_float_mesh(tdgl, a)
    except ValueError as e:
        if a["kind"] != "smoothed" or "Malformed Voronoi cell" not in str(e):
            raise
        # Mesh.smooth refuses positions whose Voronoi cells are malformed (allowed; nothing to observe on this input)
        return {"kind": "refused", "label": a.get("label"), "why": str(e)[:80]}
    dev = a.pop("_device", None)
    arr = refops.arrays_of(mesh)
    n, edges, length, dual, area, bidx, dirs = (arr[k] for k in ("n", "edges", "length", "dual", "area", "bidx", "directions"))
    m = len(edges)
    rng = np.random.default_rng(a.get("seed", 0) + 17)
    comps = int(connected_components(sp.coo_matrix((np.ones(m), (edges[:, 0], edges[:, 1])), shape=(n, n)), directed=False)[0])
    D = ops_mod.build_divergence(mesh).toarray()
    G = ops_mod.build_gradient(mesh).toarray()
    L = ops_mod.build_laplacian(mesh)[0].toarray()
    B = ops_mod.build_neumann_boundary_laplacian(mesh).toarray()
    aL = area[:, None] * L
    sym = 0.5 * (aL + aL.T)
    rs = 1 / np.sqrt(area)
    lam = np.linalg.eigvalsh(rs[:, None] * sym * rs[None, :])     # spectrum of L in the area-weighted inner product
    lscale = float(np.abs(lam).max())
    alpha, beta, gamma = rng.normal(size=3)
    f = alpha * mesh.sites[:, 0] + beta * mesh.sites[:, 1] + gamma
    scalar = {
        "div_code_eq_formula": quanta(D, refops.divergence(n, edges, dual, area)),
        "grad_code_eq_formula": quanta(G, refops.gradient(n, edges, length)),
        "lap_code_eq_formula": quanta(L, refops.laplacian(n, edges, dual, length, area)),
        "neumann_code_eq_formula": quanta(B, refops.neumann(n, edges, bidx, length, area)),
        "lap_eq_div_grad": quanta(L, D @ G),
        "weighted_div_sums_to_zero": quanta(area @ D, 0 * dual, scale=float(dual.max())),
        "boundary_flux_integrates": quanta(area @ B, length[bidx]),
        "weighted_lap_symmetric": quanta(aL, aL.T),
        "weighted_lap_max_eigenvalue": quanta(max(float(lam.max()), 0.0), 0.0, scale=lscale),
        "lap_annihilates_constants": quanta(L @ np.ones(n), np.zeros(n), scale=float(np.abs(L).max())),
        "grad_exact_on_linear": quanta(G @ f, (alpha * dirs[:, 0] + beta * dirs[:, 1]) / length,
                                       scale=max(abs(alpha), abs(beta))),
    }
    # the WEIGHTS from first principles: edge lengths, Voronoi dual lengths and cell areas recomputed from the raw site
    # coordinates and triangles (refops.geometry, validated by TLC on the geometric exact instances), compared where the
    # circumcentric dual is the Voronoi diagram (regular edges / well-centred sites, decided from the coordinates alone);
    # the area-weighted identities are evaluated with THESE areas, not with mesh.areas
    fp = refops.geometry(mesh.sites, mesh.elements)
    where = {tuple(map(int, e)): k for k, e in enumerate(fp["edges"])}
    idx = np.array([where[tuple(sorted(map(int, e)))] for e in edges])
    fl, fd, fa, freg = fp["length"][idx], fp["dual"][idx], fp["area"], fp["regular"][idx]
    wc = fp["well_centred"]
    if wc.sum() * 10 < n * 8:
        # (random smoothed meshes) too far from a Voronoi-dual mesh for the first-principles comparison to say much: not used
        return {"kind": "refused", "label": a.get("label"), "why": f"only {int(wc.sum())} of {n} sites are well centred"}
    ewc = wc[edges[:, 0]] & wc[edges[:, 1]]                      # edges with two well-centred end points
    bwc = ewc[bidx]
    same_boundary = set(map(int, bidx)) == set(int(k) for k in np.nonzero(fp["boundary"][idx])[0])
    safe_d = np.where(freg, fd, 1.0)
    safe_a = np.where(wc, fa, 1.0)
    Dfp, Lfp, Bfp = (refops.divergence(n, edges, safe_d, safe_a), refops.laplacian(n, edges, safe_d, fl, safe_a),
                     refops.neumann(n, edges, bidx, fl, safe_a))
    sub = np.ix_(wc, wc)
    M_fp = fa[:, None] * L
    scalar.update({
        "edge_length_eq_first_principles": quanta(length, fl),
        "dual_length_eq_first_principles": quanta(dual[freg], fd[freg]),
        "cell_area_eq_first_principles": quanta(area[wc], fa[wc]),
        "boundary_edges_eq_first_principles": 0 if same_boundary else 10 ** 9,
        "operators_eq_formula_first_principles": max(quanta(D[wc], Dfp[wc]), quanta(G, refops.gradient(n, edges, fl)),
                                                     quanta(L[wc], Lfp[wc]), quanta(B[wc], Bfp[wc])),
        "fp_weighted_div_sums_to_zero": quanta((fa @ D)[ewc], np.zeros(int(ewc.sum())), scale=float(dual.max())),
        "fp_weighted_lap_symmetric": quanta(M_fp[sub], M_fp[sub].T),
        "fp_boundary_flux_integrates": quanta((fa @ B)[bwc], fl[bidx][bwc]),
    })
    # the same operators as assembled by MeshOperators.build_operators (what every solve uses), for every
    # documented sparse_solver option; each fact is the worst residual over the options
    asm = assembled_operators(tdgl, mesh)
    lu_singular = any("singular" in v[4] for v in asm.values())
    Dr, Gr_, Lr_, Br = (refops.divergence(n, edges, dual, area), refops.gradient(n, edges, length),
                        refops.laplacian(n, edges, dual, length, area), refops.neumann(n, edges, bidx, length, area))
    scalar.update({
        "assembled_divergence_eq_formula": max(quanta(v[0], Dr) for v in asm.values()),
        "assembled_mu_gradient_eq_formula": max(quanta(v[1], Gr_) for v in asm.values()),
        "assembled_mu_laplacian_eq_formula": max(quanta(v[2], Lr_) for v in asm.values()),
        "assembled_boundary_eq_formula": max(quanta(v[3], Br) for v in asm.values()),
        "assembled_lap_eq_div_grad": max(quanta(v[2], v[0] @ v[1]) for v in asm.values()),
        "assembled_weighted_lap_symmetric": max(quanta(area[:, None] * v[2], (area[:, None] * v[2]).T) for v in asm.values()),
        "assembled_lap_annihilates_constants": max(quanta(v[2] @ np.ones(n), np.zeros(n), scale=float(np.abs(v[2]).max()))
                                                   for v in asm.values()),
    })
    # the mesh after a round trip through HDF5 (Mesh.to_hdf5/from_hdf5; for devices also Device.to_hdf5/from_hdf5): the
    # operators must be those of the mesh that was saved, and the geometric clauses must hold with |r_j - r_i| from the sites
    rmeshes = [restored(mesh)]
    if dev is not None:
        path = os.path.join(tempfile.mkdtemp(prefix="dev", dir=tmp), "device.h5")
        dev.to_hdf5(path)
        rmeshes.append(tdgl.Device.from_hdf5(path).mesh)
    rfacts = {"restored_operators_eq_formula": 0, "restored_grad_exact_on_linear": 0, "restored_boundary_flux_integrates": 0}
    for rm in rmeshes:
        rem = rm.edge_mesh
        if not (np.array_equal(rem.edges, edges) and np.array_equal(rm.sites, mesh.sites)):
            raise core.MachineryFailure("restored mesh has other sites / edges")
        rD, rG = ops_mod.build_divergence(rm).toarray(), ops_mod.build_gradient(rm).toarray()
        rL, rB = ops_mod.build_laplacian(rm)[0].toarray(), ops_mod.build_neumann_boundary_laplacian(rm).toarray()
        geo = np.linalg.norm(rm.sites[edges[:, 1]] - rm.sites[edges[:, 0]], axis=1)
        rfacts["restored_operators_eq_formula"] = max(rfacts["restored_operators_eq_formula"], quanta(rD, Dr), quanta(rG, Gr_),
                                                      quanta(rL, Lr_), quanta(rB, Br))
        rfacts["restored_grad_exact_on_linear"] = max(rfacts["restored_grad_exact_on_linear"],
                                                      quanta(rG @ f, (alpha * dirs[:, 0] + beta * dirs[:, 1]) / geo, scale=max(abs(alpha), abs(beta))))
        rfacts["restored_boundary_flux_integrates"] = max(rfacts["restored_boundary_flux_integrates"],
                                                          quanta(np.asarray(rm.areas) @ rB, geo[np.asarray(rem.boundary_edge_indices)]))
    scalar.update(rfacts)
    kdim = int((np.abs(lam) <= 1e-9 * lscale).sum())
    ev = [{"ev": "facts", "group": "scalar", "facts": scalar, "kdim": kdim, "nsites": int(n), "wc": int(wc.sum()),
           "reflex_wc": int((fp["reflex"] & wc).sum())}]
    # sites that play the part of current terminals (fixed sites of MeshOperators)
    if dev is not None and dev.terminals:
        fixed = np.concatenate([t.site_indices for t in dev.terminal_info()]).astype(np.int64)
    else:
        fixed = np.asarray(mesh.boundary_indices[:4], dtype=np.int64)
    # covariant operators for random real vector potentials, built and refreshed
    mo = ops_mod.MeshOperators(mesh, SparseSolver.SUPERLU, fixed_sites=np.array([], dtype=np.int64), fix_psi=True)
    mo.set_link_exponents(rng.normal(size=(m, 2)))
    for k in range(a.get("nA", 2)):
        A = rng.normal(size=(m, 2)) * (0.3 + 2.0 * k) / float(length.mean())
        theta = refops.theta_of(A, dirs)
        Gb = ops_mod.build_gradient(mesh, link_exponents=A).toarray()
        Lb = ops_mod.build_laplacian(mesh, link_exponents=A)[0].toarray()
        mo.set_link_exponents(A)
        Gr, Lr = mo.psi_gradient.toarray(), mo.psi_laplacian.toarray()
        Gf = refops.gradient(n, edges, length, theta)
        Lf = refops.laplacian(n, edges, dual, length, area, theta)
        psi = rng.normal(size=n) + 1j * rng.normal(size=n)
        J = mo.get_supercurrent(psi)
        aLA = area[:, None] * Lr
        # with fixed (terminal) sites: psi not pinned (terminal_psi=None -> fix_psi=False): the free operator; pinned: identity rows
        pinfacts = {"unpinned_covlap_eq_formula": 0, "unpinned_covlap_hermitian": 0, "pinned_covlap_eq_formula": 0,
                    "pinned_paths_covgrad_eq_formula": 0}
        Lpin = Lf.copy()
        Lpin[fixed, :] = 0
        Lpin[fixed, fixed] = 1
        for flag in (True, False):
            mp = ops_mod.MeshOperators(mesh, SparseSolver.SUPERLU, fixed_sites=fixed, fix_psi=flag)
            for stage in ("build", "refresh"):
                if stage == "refresh":
                    mp.set_link_exponents(rng.normal(size=(m, 2)))
                mp.set_link_exponents(A)
                Lp, Gp = mp.psi_laplacian.toarray(), mp.psi_gradient.toarray()
                pinfacts["pinned_paths_covgrad_eq_formula"] = max(pinfacts["pinned_paths_covgrad_eq_formula"], quanta(Gp, Gf))
                if flag:
                    pinfacts["pinned_covlap_eq_formula"] = max(pinfacts["pinned_covlap_eq_formula"], quanta(Lp, Lpin))
                else:
                    pinfacts["unpinned_covlap_eq_formula"] = max(pinfacts["unpinned_covlap_eq_formula"], quanta(Lp, Lf))
                    pinfacts["unpinned_covlap_hermitian"] = max(pinfacts["unpinned_covlap_hermitian"],
                                                                quanta(area[:, None] * Lp, (area[:, None] * Lp).conj().T))
        ev.append({"ev": "facts", "group": "cov", "kdim": 0, "nfixed": int(len(fixed)), "facts": {
            **pinfacts,
            "fp_covlap_hermitian": max(quanta((fa[:, None] * Lr)[sub], (fa[:, None] * Lr)[sub].conj().T),
                                       quanta((fa[:, None] * Lb)[sub], (fa[:, None] * Lb)[sub].conj().T)),
            "covgrad_code_eq_formula": quanta(Gb, Gf), "covlap_code_eq_formula": quanta(Lb, Lf),
            "covgrad_refresh_eq_formula": quanta(Gr, Gf), "covlap_refresh_eq_formula": quanta(Lr, Lf),
            "covlap_hermitian": max(quanta(aLA, aLA.conj().T), quanta(area[:, None] * Lb, (area[:, None] * Lb).conj().T)),
            "supercurrent_code_eq_formula": quanta(J, refops.supercurrent(edges, length, theta, psi)),
        }})
        # gauge transformation with a random real chi: A -> A + grad chi (A.e -> A.e + chi_j - chi_i)
        chi = rng.normal(size=n) * 2.0
        dchi = chi[edges[:, 1]] - chi[edges[:, 0]]
        A2 = A + (dchi / (dirs ** 2).sum(axis=1))[:, None] * dirs
        Dg = np.exp(1j * chi)
        mo.set_link_exponents(A2)
        G2, L2 = mo.psi_gradient.toarray(), mo.psi_laplacian.toarray()
        J2 = mo.get_supercurrent(Dg * psi)
        ev.append({"ev": "facts", "group": "gauge", "kdim": 0, "facts": {
            "covgrad_covariant": quanta(G2 * Dg[None, :], Dg[edges[:, 0]][:, None] * Gr),
            "covlap_covariant": quanta(L2 * Dg[None, :], Dg[:, None] * Lr),
            "supercurrent_invariant": quanta(J2, J),
            "modulus_invariant": quanta(np.abs(Dg * psi), np.abs(psi)),
        }})
        mo.set_link_exponents(A)
    return {"kind": "float", "mi": 0, "pat": 0, "geo": False, "heavy": False, "comps": comps, "mesh": {},
            "reflex": bool(a.get("reflex", False)), "route": route_of(a),
            "well_centred_sites": int(wc.sum()), "reflex_well_centred_sites": int((fp["reflex"] & wc).sum()),
            "ev": ev, "label": a.get("label", a["kind"]), "sites": int(n), "edges": int(m), "lu_singular": lu_singular,
            "solver_option_notes": {k: v[4] for k, v in asm.items()}}


# ------------------------------------------------------------------ validation


def strip(t):
    return dict({k: t[k] for k in ("kind", "mi", "pat", "geo", "heavy", "comps", "mesh", "ev")}, reflex=bool(t.get("reflex", False)),
                profile=t.get("profile", "full"))


def validate(ctx, traces, what, invariants, max_report=4):
    """Batch validation with FVOpsTrace; every rejected trace becomes a violation naming the clause."""
    norm = [strip(t) for t in traces]
    cfg = trace_cfg(invariants)
    accepted, r = ctx.validate_traces("FVOpsTrace", norm, cfg, name=f"FVOpsTrace[{what}]")
    if "Accepted" in r.violated:
        raise core.MachineryFailure(f"FVOpsTrace[{what}]: a trace misses required events (vacuous): {r.counterexample(1500)}")
    other = [v for v in r.violated if v != "Accepted"]
    ctx.cov["traces_validated_against_impl"] += len(accepted)
    reported = 0
    for n, t in enumerate(traces):
        if n in accepted and not other:
            continue
        if n in accepted:
            continue
        if reported >= max_report:
            ctx.cov["further_rejected_traces_not_diagnosed"] = ctx.cov.get("further_rejected_traces_not_diagnosed", 0) + 1
            continue
        reported += 1
        far, _, _ = ctx.diagnose_trace("FVOpsTrace", norm[n], trace_cfg([], strict=True, accepted=False))
        evs = norm[n]["ev"]
        at = evs[far - 1] if 0 < far <= len(evs) else None
        # which clauses: re-run without guards; TLC evaluates every clause on what the code produced and prints the false ones
        tdir = ctx.tmp / "traces"
        tf = tdir / f"clauses_{len(list(tdir.iterdir()))}.json"
        tf.write_text(json.dumps([norm[n]]))
        rr = core.run_tlc("FVOpsTrace", trace_cfg(["Report"], strict=False, accepted=False), ctx.tmp / "tlc", workers=1,
                          env={"TRACE_FILE": str(tf)})
        violated, tail = [], rr.out[-1500:]
        import re
        mm = re.search(r'<<\s*"CLAUSES",\s*\d+,\s*(\{[^}]*\})\s*>>', rr.out)     # TLC wraps long values over several lines
        if mm:
            violated = sorted(core.parse_tla_value(" ".join(mm.group(1).split())))
        clause = ",".join(violated) if violated else "no-matching-action"
        if at and at.get("ev") == "facts":
            over = {k: v for k, v in at["facts"].items() if v > FLOAT_TOL}
            detail = f"facts beyond {FLOAT_TOL} quanta of {QUANTUM}: {over}" + (
                f"; kernel dimension {at.get('kdim')}, connected components {t.get('comps')}" if at.get("group") == "scalar" else "")
        elif at:
            detail = f"event {at.get('ev')}/{at.get('op', '')}/{at.get('src', '')}/{at.get('path', '')} q={at.get('q')}"
        else:
            detail = "rejected at the initial state (instance not well-formed or not the instance of the universe)"
        key = f"{what}:{t.get('label')}:{clause}:{at.get('op', at.get('group', at.get('ev'))) if at else 'init'}"
        ctx.violation(key, f"{what}: what the real finite-volume code produced is not what FVOps defines ({clause}); "
                           f"mesh {t.get('label')} (mi={t['mi']}, pat={t['pat']}); stuck at event {far}/{len(evs)}: {detail}",
                      {"trace": t, "stuck_at": far, "violated": violated, "tlc_tail": tail})
    return accepted


def canaries(ctx, traces, accepted, invariants, what, facts):
    """Binding self-test: corrupt one entry of one recorded matrix of an accepted exact trace and push one fact of an
    accepted float trace beyond the tolerance (once per name in `facts`); TLC must reject every corrupted trace."""
    rnd = random.Random(ctx.seed)
    bad, names = [], []
    cands = [n for n in sorted(accepted) if traces[n]["kind"] == "exact"]
    if cands:
        t = copy.deepcopy(strip(traces[rnd.choice(cands)]))
        e = rnd.choice([e for e in t["ev"] if e["ev"] in ("op", "gop") and e.get("src", "code") == "code"])
        i, k = rnd.randrange(len(e["m"])), rnd.randrange(len(e["m"][0]))
        x, y, d = e["m"][i][k]
        e["m"][i][k] = [x + d, y, d]          # add 1 to one entry
        bad.append(t)
        names.append("matrix-entry")
    fl = [n for n in sorted(accepted) if traces[n]["kind"] == "float"]
    for fact in (facts if fl else []):
        t = copy.deepcopy(strip(traces[fl[0]]))
        for e in t["ev"]:
            if fact in e["facts"]:
                e["facts"][fact] = FLOAT_TOL + 1
                break
        else:
            raise core.MachineryFailure(f"{what}: fact {fact} not recorded")
        bad.append(t)
        names.append(fact)
    if fl:
        t = copy.deepcopy(strip(traces[fl[0]]))
        t["ev"][0]["kdim"] += 1               # a second zero mode on a connected mesh
        bad.append(t)
        names.append("kernel-dimension")
    if not bad:
        return
    acc, _ = ctx.validate_traces("FVOpsTrace", bad, trace_cfg(invariants, accepted=False), name=f"canaries[{what}: {', '.join(names)}]", count=False)
    if acc:
        raise core.MachineryFailure(f"{what}: corrupted traces accepted ({[names[n] for n in sorted(acc)]}) -- the binding is vacuous")
    ctx.cov["canaries_rejected"] += len(bad)


def replay_file(ctx, path, invariants, what):
    """./check Cxx --replay <file>: re-validate the recorded trace (or re-run the model) with TLC."""
    rec = json.load(open(path))
    if "trace" in rec and "ev" in rec["trace"] and rec["trace"].get("kind") in ("exact", "float"):
        validate(ctx, [rec["trace"]], what, invariants)
    elif "trace" in rec and "tol" in rec["trace"]:
        validate_twin(ctx, [rec["trace"]], what)
    elif "module" in rec and "cfg" in rec:
        ctx.model_check(rec["module"], rec["cfg"], name=f"{rec['module']}[replay]")
    else:
        raise core.MachineryFailure(f"cannot replay {path}")
    for v in ctx.violations:
        print(f"VIOLATION property={ctx.pid} replay={path}\n  what: {v['what']}")
    return 1 if ctx.violations else 0


FLOAT_MESHES_QUICK = [
    dict(kind="device", label="meshpy/film", mel=0.7),
    dict(kind="device", label="meshpy/film+hole/smoothed", mel=0.6, holes=[(0.3, 0.1, 0.6)], smooth=30, reflex=True),
    dict(kind="device", label="meshpy/bar+terminals/2holes", mel=0.6, holes=[(-1.2, 0.2, 0.5), (1.1, -0.3, 0.45)], terminals=True, smooth=5,
         reflex=True),
    dict(kind="device", label="meshpy/disk/xi=0.5", shape="disk", size=(4.0, 4.0), mel=0.5, xi=0.5, smooth=10),
    dict(kind="lattice", label="lattice/(4,0),(2,3)/7x6", nx=7, ny=6),
    dict(kind="lattice", label="lattice/(6,0),(3,4)/5x8", nx=5, ny=8, b1=(6.0, 0.0), b2=(3.0, 4.0), scale=0.21),
    dict(kind="delaunay", label="delaunay/random/0", seed=0, nb=8, nin=40),
    dict(kind="delaunay", label="delaunay/random/1", seed=1, nb=10, nin=70),
    # re-entrant corner (notch) and hole; the other public routes to a mesh: Polygon.make_mesh (with smooth >= 1 the submesh
    # is built by Mesh.smooth itself) and Mesh.smooth(n) on an existing mesh
    dict(kind="device", label="meshpy/notch+hole", notch=True, holes=[(-1.0, -0.2, 0.5)], mel=0.6, reflex=True),
    dict(kind="polygon", label="polygon.make_mesh/notch", notch=True, min_points=100, reflex=True),
    dict(kind="polygon", label="polygon.make_mesh/smooth=5", min_points=150, smooth=5),
    dict(kind="polygon", label="polygon.make_mesh/notch/smooth=2", notch=True, min_points=100, smooth=2, reflex=True),
    dict(kind="smoothed", label="mesh.smooth(3)/delaunay", base=dict(kind="delaunay", seed=0, nb=8, nin=40), n=3),
    dict(kind="smoothed", label="mesh.smooth(1)/meshpy film+hole", base=dict(kind="device", mel=0.6, holes=[(0.3, 0.1, 0.6)]), n=1, reflex=True),
    # a meshed device with xi != 1 length unit after a rigid translation (in place / inside the context manager)
    dict(kind="device", label="meshpy/xi=0.5/hole/translate(3,-1.5) in place", xi=0.5, mel=0.6, smooth=30, holes=[(0.3, 0.1, 0.6)], translate=(3.0, -1.5), reflex=True),
    dict(kind="device", label="meshpy/xi=2/terminals/with translation(-4,2.5)", xi=2.0, mel=0.8, smooth=5, terminals=True, translate=(-4.0, 2.5), context=True),
]
ROUTES = {"device": "Device.make_mesh", "translated": "Device.translate(inplace) / device.translation()", "lattice": "Mesh.from_triangulation", "delaunay": "Mesh.from_triangulation",
          "smoothed": "Mesh.smooth(n)"}


def route_of(m):
    if m["kind"] == "device" and m.get("translate"):
        return ROUTES["translated"]
    if m["kind"] == "polygon":
        return "Polygon.make_mesh(smooth=n)" if m.get("smooth") else "Polygon.make_mesh"
    return ROUTES[m["kind"]]


REQUIRED_ROUTES = {ROUTES["translated"], "Device.make_mesh", "Polygon.make_mesh", "Polygon.make_mesh(smooth=n)", "Mesh.smooth(n)", "Mesh.from_triangulation"}


def check_float_coverage(traces):
    """Vacuity guards of the float-mesh family (machinery, never a verdict): every public route to a mesh is present, the
    first-principles weights were compared on >= 80 % of every mesh and on reflex boundary sites where the film has them."""
    fl = [t for t in traces if t["kind"] == "float"]
    missing = REQUIRED_ROUTES - {t["route"] for t in fl}
    if missing:
        raise core.MachineryFailure(f"float meshes: no mesh obtained through {sorted(missing)}")
    for t in fl:
        if t["well_centred_sites"] * 10 < t["sites"] * 8:
            raise core.MachineryFailure(f"float mesh {t['label']}: only {t['well_centred_sites']} of {t['sites']} sites are well centred")
        if t["reflex"] and t["reflex_well_centred_sites"] == 0:
            raise core.MachineryFailure(f"float mesh {t['label']}: no well-centred reflex boundary site (hole / notch expected)")
    if not any(t["reflex"] for t in fl):
        raise core.MachineryFailure("float meshes: none with a hole or a re-entrant corner")


def float_meshes(ctx):
    out = [dict(m, seed=ctx.seed + k) if "seed" not in m else dict(m, seed=m["seed"] + 100 * ctx.seed)
           for k, m in enumerate(FLOAT_MESHES_QUICK)]
    if not ctx.quick:
        rnd2 = random.Random(ctx.seed + 5)
        for k in range(8):
            out.append(dict(kind="polygon", label=f"polygon.make_mesh/t{k}", notch=bool(k % 2), reflex=bool(k % 2),
                            min_points=rnd2.choice([120, 200, 300]), smooth=rnd2.choice([0, 1, 2, 5, 10])))
        for k in range(3):
            out.append(dict(kind="device", label=f"meshpy/translated/t{k}", xi=[0.5, 2.0, 1.5][k], mel=[0.6, 0.8, 0.7][k], smooth=[30, 5, 10][k],
                            holes=[[(0.3, 0.1, 0.6)], [], [(0.3, 0.1, 0.6)]][k], terminals=(k == 1), reflex=(k != 1),
                            translate=(rnd2.randint(-40, 40) / 8, rnd2.randint(-40, 40) / 8), context=bool(k % 2)))
        for k in range(6):
            base = rnd2.choice([dict(kind="delaunay", seed=50 + k, nb=rnd2.randint(7, 12), nin=rnd2.randint(30, 90)),
                                dict(kind="device", mel=0.6, holes=[(0.3, 0.1, 0.6)]),
                                dict(kind="lattice", nx=8, ny=7)])
            out.append(dict(kind="smoothed", label=f"mesh.smooth/t{k}/{base['kind']}", base=base, n=rnd2.choice([1, 2, 4]),
                            reflex=bool(base.get("holes"))))
    if not ctx.quick:
        rnd = random.Random(ctx.seed)
        for k in range(10):
            out.append(dict(kind="delaunay", label=f"delaunay/random/t{k}", seed=1000 + k + 100 * ctx.seed,
                            nb=rnd.randint(6, 14), nin=rnd.randint(20, 150)))
        for k in range(6):
            out.append(dict(kind="device", label=f"meshpy/t{k}", mel=rnd.choice([0.35, 0.45, 0.6]), smooth=rnd.choice([0, 10, 100]),
                            holes=[(rnd.uniform(-1.2, 1.2), rnd.uniform(-0.4, 0.4), rnd.uniform(0.3, 0.6))][: k % 2 + 0],
                            terminals=bool(k % 3 == 0), seed=k, nA=3))
        out.append(dict(kind="lattice", label="lattice/(4,0),(2,3)/14x11", nx=14, ny=11, nA=3))
    return out


# ------------------------------------------------------------------ C04, run level: two real runs in two gauges


def validate_twin(ctx, traces, what):
    """Twin validation of run pairs (as twin.validate_twin, with a concise report: the observation vectors are long)."""
    from . import twin

    norm = [{"tol": t["tol"], "minruns": t["minruns"], "ev": t["ev"]} for t in traces]
    accepted, r = ctx.validate_traces("Twin", norm, twin.twin_cfg(), name=f"Twin[{what}]")
    if "Accepted" in r.violated:
        raise core.MachineryFailure(f"Twin[{what}]: a trace compares fewer runs than required (vacuous)")
    ctx.cov["traces_validated_against_impl"] += sum(len({e["run"] for e in traces[n]["ev"]}) for n in accepted)
    for n, t in enumerate(traces):
        if n in accepted:
            continue
        far, violated, tail = ctx.diagnose_trace("Twin", norm[n], twin.twin_cfg())
        ev = t["ev"][far - 1] if 0 < far <= len(t["ev"]) else None
        first = next((e for e in t["ev"] if ev and e["key"] == ev["key"]), None)
        if ev and first and len(ev["q"]) == len(first["q"]):
            d = [abs(x - y) for x, y in zip(first["q"], ev["q"])]
            k = max(range(len(d)), key=d.__getitem__)
            detail = (f"entry {k}: run {first['run']} observed {first['q'][k]}, run {ev['run']} observed {ev['q'][k]} quanta; "
                      f"{sum(1 for x in d if x > t['tol'])} of {len(d)} entries differ by more than {t['tol']} quanta")
        else:
            detail = "observation vectors of different length" if ev else "trace not consumed"
        ctx.violation(f"{what}:{t.get('label', n)}:{ev['key'] if ev else '?'}",
                      f"{what}: two real runs related by a gauge transformation disagree on {ev['key'] if ev else '?'} "
                      f"(quantum = 1e-6 of the scale): {detail}; pair: {t.get('label')}",
                      {"trace": {"tol": t["tol"], "minruns": t["minruns"], "ev": t["ev"], "label": t.get("label")}, "stuck_at": far})
    return accepted

OBS = ["abs_psi", "supercurrent", "normal_current", "mu_diff"]


def _device(tdgl, a):
    from . import devices

    if a.get("history") == "xi edited in place":
        # a device that was used (its derived scales read, a short solve) at xi = 1, then given another coherence length by
        # assignment to device.layer.coherence_length, re-meshed and used again
        dev = copy.deepcopy(devices.make(tdgl, a.get("dev", "bar"), mel=a.get("mel", 0.8), xi=1.0))
        _ = (dev.Bc2, dev.A0, dev.K0, dev.kappa)
        tdgl.solve(dev, _options(tdgl, a, os.path.join(tempfile.mkdtemp(prefix="hist"), "h.h5"), 2 * a.get("dt", 2.0 ** -6)),
                   applied_vector_potential=0.1)
        dev.layer.coherence_length = float(a["xi"])
        dev.make_mesh(max_edge_length=a.get("mel", 0.8))
        if abs(dev.coherence_length.magnitude - float(a["xi"])) > 0:
            raise core.MachineryFailure("the edited coherence length did not take effect")
        return dev
    dev = devices.make(tdgl, a.get("dev", "bar"), mel=a.get("mel", 0.8), xi=a.get("xi", 1.0))
    return copy.deepcopy(dev)        # the cached device must not be modified (translate in place)


def _options(tdgl, a, path, solve_time):
    return tdgl.SolverOptions(solve_time=solve_time, skip_time=0.0, dt_init=a.get("dt", 2.0 ** -6), dt_max=0.1,
                              adaptive=a.get("adaptive", False), adaptive_window=3, save_every=a.get("k", 10),
                              progress_interval=10 ** 9, pause_on_interrupt=False, output_file=path,
                              include_screening=bool(a.get("screening", False)), screening_tolerance=a.get("screening_tol", 1e-3),
                              field_units="mT", current_units="uA", terminal_psi=0.0)


def _frames(path):
    import h5py

    out = []
    with h5py.File(path, "r") as f:
        for key in sorted(f["data"], key=int):
            g = f["data"][key]
            psi = np.array(g["psi"])
            mu = np.array(g["mu"])
            fr = {"step": int(g.attrs["step"]), "abs_psi": np.abs(psi), "supercurrent": np.array(g["supercurrent"]),
                  "normal_current": np.array(g["normal_current"]), "mu_diff": mu - mu[0], "psi": psi, "mu": mu,
                  "induced_vector_potential": np.array(g["induced_vector_potential"]).ravel(), "iters": None,
                  "A_applied": np.array(g["applied_vector_potential"]) if "applied_vector_potential" in g else None}
            if "running_state" in g and "screening_iterations" in g["running_state"]:
                dts = np.atleast_1d(np.array(g["running_state"]["dt"])).reshape(-1)
                its = np.atleast_1d(np.array(g["running_state"]["screening_iterations"])).reshape(-1)
                fr["iters"] = [int(x) for x, d in zip(its, dts) if d > 0]
            out.append(fr)
    return out


def _ramp_parameter(tdgl, B0, B1, T, c=(0.0, 0.0)):
    """A time-dependent tdgl.Parameter: the symmetric-gauge potential of a uniform field ramped linearly from B0 (t = 0) to B1
    (t >= T) about the origin, plus a constant vector c; field_units * length_units."""
    def ramped_field_vector_potential(x, y, z, *, t, B0, B1, T, cx, cy):
        x, y = np.atleast_1d(x), np.atleast_1d(y)
        B = B0 + (B1 - B0) * min(max(t / T, 0.0), 1.0)
        out = np.zeros((len(x), 3))
        out[:, 0] = -B * y / 2 + cx
        out[:, 1] = B * x / 2 + cy
        return out
    return tdgl.Parameter(ramped_field_vector_potential, time_dependent=True, B0=float(B0), B1=float(B1), T=float(T),
                          cx=float(c[0]), cy=float(c[1]))


def _shift_parameter(tdgl, c):
    """A constant vector potential (cx, cy, 0) in units of field_units * length_units, as a tdgl.Parameter."""
    def constant_vector_potential(x, y, z, *, cx, cy):
        x = np.atleast_1d(x)
        out = np.zeros((len(x), 3))
        out[:, 0] = cx
        out[:, 1] = cy
        return out
    return tdgl.Parameter(constant_vector_potential, cx=float(c[0]), cy=float(c[1]))


def _solve_frames(tdgl, *args, **kw):
    """One real run -> (frames, None), or ([], message) when the solver refuses / fails to converge (an observation)."""
    try:
        sol = tdgl.solve(*args, **kw)
    except RuntimeError as e:
        return [], f"RuntimeError: {str(e)[:160]}"
    return _frames(sol.path), None


def potential_gauge_trace(tdgl, a, tmp):
    """The documented clause "the uniform-field potential is re-centred on the evaluation points (a gauge choice)" on position
    arrays of any length: A(r) - (B/2)(-y, x) must be ONE constant vector over ALL positions handed over in one call (a piecewise
    constant would not be a gauge transformation), and the circulation of A around harness triangles must be B times their area.
    a: dict(source "constant" | "ramp" | "solver-float", B (mT), N, seed).  Returns one Twin trace: the residual of every chunk of
    1000 positions is an observation of the same key (first sight defines, the others must be related)."""
    from tdgl.sources import ConstantField, LinearRamp

    rng = np.random.default_rng(a.get("seed", 0))
    N, B = int(a["N"]), float(a["B"])
    nt = N // 3
    # edge-centre-like positions: the mid points of the sides of nt small triangles scattered over a 60 x 40 um film (+ fill)
    p0 = np.c_[rng.uniform(-30, 30, nt), rng.uniform(-20, 20, nt)] + np.array(a.get("origin", (7.0, -3.0)))
    u, v = rng.normal(size=(nt, 2)) * 0.3, rng.normal(size=(nt, 2)) * 0.3
    corners = [p0, p0 + u, p0 + v]
    mids = [(corners[k] + corners[(k + 1) % 3]) / 2 for k in range(3)]
    sides = [corners[(k + 1) % 3] - corners[k] for k in range(3)]
    extra = np.c_[rng.uniform(-30, 30, N - 3 * nt), rng.uniform(-20, 20, N - 3 * nt)]
    pos = np.concatenate(mids + [extra])
    perm = rng.permutation(N)                       # the order in which the positions are handed over is arbitrary
    inv = np.argsort(perm)
    x, y, z = pos[perm, 0], pos[perm, 1], np.zeros(N)
    if a["source"] == "constant":
        P, kw, Beff = ConstantField(B, field_units="mT", length_units="um"), {}, B
    elif a["source"] == "ramp":
        P, kw, Beff = ConstantField(B, field_units="mT", length_units="um") * LinearRamp(tmin=0, tmax=4.0), {"t": 1.0}, B / 4
    else:
        raise ValueError(a["source"])
    A = np.asarray(P(x, y, z, **kw))[:, :2][inv]           # back in the harness's order
    res = A - (Beff / 2) * np.c_[-pos[:, 1], pos[:, 0]]
    scale = abs(Beff) * 30.0
    ev = []
    for n, lo in enumerate(range(0, N, 1000)):
        r = res[lo:lo + 1000]
        ev.append({"run": f"positions {lo}..{min(lo + 1000, N) - 1}", "key": "A - (B/2)(-y, x)  [min x, max x, min y, max y]",
                   "q": [int(round(float(v_) / scale * 1e6)) for v_ in (r[:, 0].min(), r[:, 0].max(), r[:, 1].min(), r[:, 1].max())]})
    # circulation around the harness's triangles / (B area)
    Am = [A[k * nt:(k + 1) * nt] for k in range(3)]
    circ = sum((Am[k] * sides[k]).sum(axis=1) for k in range(3))
    area = 0.5 * (u[:, 0] * v[:, 1] - u[:, 1] * v[:, 0])
    big = np.abs(area) > 1e-3
    ratio = circ[big] / (Beff * area[big])
    for n, lo in enumerate(range(0, int(big.sum()), 1000)):
        rr = ratio[lo:lo + 1000]
        ev.append({"run": f"triangles {lo}..", "key": "circulation of A around a triangle / (B area)  [min, max]",
                   "q": [int(round(float(rr.min()) * 1e6)), int(round(float(rr.max()) * 1e6))]})
    ev.insert(0, {"run": "expected", "key": "circulation of A around a triangle / (B area)  [min, max]", "q": [10 ** 6, 10 ** 6]})
    return {"args": a, "ev": ev, "info": {"N": N, "chunks": len(range(0, N, 1000)), "spread_of_residual": [float(np.ptp(res[:, 0]) / scale),
                                                                                                      float(np.ptp(res[:, 1]) / scale)]}}


PHI0 = 6.62607015e-34 / (2 * 1.602176634e-19)     # Wb, h / 2e from the exact SI values of h and e: typed in, not taken from the package


def physical_gauge_phase(sites_dimensionless, xi_um, c_mT_um):
    """chi_i = (2 pi / Phi_0) c . r_i from first principles: c in T m from the harness's own numbers (mT um), r_i in metres from
    the REQUESTED coherence length and length unit (um); nothing is read from device.A0 / solver.A_scale."""
    r = np.asarray(sites_dimensionless, dtype=float) * float(xi_um) * 1e-6
    c = np.asarray(c_mT_um, dtype=float) * 1e-3 * 1e-6
    return (2 * np.pi / PHI0) * (r @ c)


def gauge_run_pair(tdgl, a, tmp):
    """Two REAL runs that differ by a gauge transformation; returns the quantised gauge-invariant observables of
    both, frame by frame.  mode "translate": the meshed device and its rigid translate under a uniform field
    (the uniform-field potential is re-centred on the evaluation points).  mode "shift": A versus A + c with the
    second run started from psi exp(i chi), chi = c.r (dimensionless units)."""
    from tdgl.sources import ConstantField

    work = tempfile.mkdtemp(prefix="gauge", dir=tmp)
    cwd = os.getcwd()
    old_tempdir = tempfile.tempdir
    try:
        os.chdir(work)
        tempfile.tempdir = work
        dt = a.get("dt", 2.0 ** -6)
        N0, N = a.get("warm", 30), a.get("steps", 100)
        kind = a.get("dev", "bar")
        field = a.get("field", 0.4)
        from . import devices
        cur = devices.balanced_currents(kind, a.get("current", 0.0)) if kind not in ("film", "ring") else None
        kw = {} if cur is None else {"terminal_currents": cur}
        dev = _device(tdgl, a)
        ramp = a.get("ramp")        # (B0, B1, T): a time-dependent applied potential, the field ramped over many steps
        if ramp and a["mode"] == "translate":
            from tdgl.sources import LinearRamp
            mk = lambda: ConstantField(ramp[1], field_units="mT", length_units="um") * LinearRamp(tmin=0, tmax=ramp[2])   # noqa: E731
        elif ramp:
            mk = lambda: _ramp_parameter(tdgl, *ramp)       # noqa: E731
        else:
            mk = lambda: ConstantField(field, field_units="mT", length_units="um")      # noqa: E731
        A1 = mk()
        runs = {}
        if a["mode"] == "translate":
            dev2 = _device(tdgl, a)
            dev2.translate(dx=a["offset"][0], dy=a["offset"][1], inplace=True)
            raised = {}
            runs["A"], raised["A"] = _solve_frames(tdgl, dev, _options(tdgl, a, os.path.join(work, "a.h5"), (N0 + N) * dt - dt / 2),
                                                   applied_vector_potential=A1, **kw)
            runs["B"], raised["B"] = _solve_frames(tdgl, dev2, _options(tdgl, a, os.path.join(work, "b.h5"), (N0 + N) * dt - dt / 2),
                                                   applied_vector_potential=mk(), **kw)
            info = {"sites": len(dev.mesh.sites)}
        else:
            c = a["shift"]                      # in mT * um
            A2 = _ramp_parameter(tdgl, *ramp, c=c) if ramp else mk() + _shift_parameter(tdgl, c)
            # dimensionless shift: what the solver itself makes of the two potentials on the edges
            p1 = tdgl.TDGLSolver(dev, _options(tdgl, a, None, dt), applied_vector_potential=A1, **kw)
            p2 = tdgl.TDGLSolver(dev, _options(tdgl, a, None, dt), applied_vector_potential=A2, **kw)
            dA = np.asarray(p2.current_A_applied) - np.asarray(p1.current_A_applied)
            cdim = dA.mean(axis=0)
            if np.abs(dA - cdim).max() > 1e-12 * max(1.0, np.abs(cdim).max()):
                raise core.MachineryFailure("the shifted potential is not a constant shift on the edges")
            # the gauge function of the PHYSICAL transformation A -> A + c, psi -> psi exp(i (2 pi / Phi_0) c.r)
            xi = float(a.get("xi", 1.0))
            chi = physical_gauge_phase(dev.mesh.sites, xi, c)
            cphys = (2 * np.pi / PHI0) * np.asarray(c, dtype=float) * 1e-9 * xi * 1e-6      # expected dimensionless shift per xi
            # operator level, on the solver's own operators (link variables as the solver scaled them): the supercurrent of a
            # state in the gauge A must be that of the transformed state in the gauge A + c
            rng = np.random.default_rng(a.get("seed", 0) + 3)
            nn = len(dev.mesh.sites)
            op_ev = []
            for nm, psi0 in (("psi=1", np.ones(nn, dtype=complex)), ("random psi", rng.normal(size=nn) + 1j * rng.normal(size=nn))):
                for run, sol, ps in (("A", p1, psi0), ("B", p2, psi0 * np.exp(1j * chi))):
                    op_ev.append({"run": run, "key": f"operator level/supercurrent of {nm}",
                                  "q": [int(round(float(x) * 1e6)) for x in np.asarray(sol.operators.get_supercurrent(ps))]})
            # the coupling constant itself: the solver's dimensionless shift against (2 pi / Phi_0) c xi
            op_ev.append({"run": "A", "key": "dimensionless shift (2 pi/Phi_0) c xi", "q": [int(round(float(x) * 1e6)) for x in cphys]})
            op_ev.append({"run": "B", "key": "dimensionless shift (2 pi/Phi_0) c xi", "q": [int(round(float(x) * 1e6)) for x in cdim]})
            # warm-up in the first gauge, then continue once in each gauge from gauge-equivalent states
            s0 = tdgl.solve(dev, _options(tdgl, a, os.path.join(work, "w.h5"), N0 * dt - dt / 2), applied_vector_potential=A1, **kw)
            seedA = tdgl.Solution.from_hdf5(s0.path)
            seedB = tdgl.Solution.from_hdf5(s0.path)
            if not a.get("break_seed"):      # negative control: without the phase factor the two runs are NOT gauge equivalent
                seedB.tdgl_data.psi = seedB.tdgl_data.psi * np.exp(1j * chi)
            raised = {}
            runs["A"], raised["A"] = _solve_frames(tdgl, dev, _options(tdgl, a, os.path.join(work, "a.h5"), N * dt - dt / 2),
                                                   applied_vector_potential=A1, seed_solution=seedA, **kw)
            runs["B"], raised["B"] = _solve_frames(tdgl, dev, _options(tdgl, a, os.path.join(work, "b.h5"), N * dt - dt / 2),
                                                   applied_vector_potential=A2, seed_solution=seedB, **kw)
            info = {"sites": len(dev.mesh.sites), "shift_dimensionless": [float(x) for x in cdim], "xi": xi,
                    "shift_dimensionless_from_SI_constants": [float(x) for x in cphys],
                    "max_abs_chi": float(np.abs(chi).max())}
            # psi itself must differ between the gauges by exp(i chi) up to a global phase: recorded as an extra
            # gauge-covariant observable |psi_B conj(psi_A exp(i chi))| vs |psi_A|^2 is implied by abs_psi; the
            # relative phase pattern is checked through the supercurrent.
        # whether each run completed is itself an observation (1000 quanta apart: never within tolerance)
        outcome = [{"run": nm, "key": "outcome (0 = completed, 1000 = raised)", "q": [1000 if raised[nm] else 0]} for nm in ("A", "B")]
        if raised["A"] or raised["B"]:
            info.update({"raised": raised, "frames": [len(runs["A"]), len(runs["B"])], "worst_relative_difference": {"outcome": 1.0},
                         "psi_moved": 0.0, "max_supercurrent": 0.0, "steps": [0, 0], "max_phase_difference_between_gauges": 0.0,
                         "screening_iterations": {"A": [], "B": []}})
            return {"args": a, "ev": outcome, "ev_exact": copy.deepcopy(outcome), "info": info}
        # quantisation: 1e-6 of the scale of each quantity over both runs
        floor = {"abs_psi": 1.0, "supercurrent": 1e-3, "normal_current": 1e-3, "mu_diff": 1e-3, "induced_vector_potential": 1e-6}
        obs = OBS + (["induced_vector_potential"] if a.get("screening") else [])
        scale = {k: max(floor[k], max(float(np.abs(fr[k]).max()) for r in runs.values() for fr in r)) for k in obs}
        if a["mode"] != "translate":
            scale["abs_psi"] = 1.0
        ev, ev_exact, worst = list(outcome) + (op_ev if a["mode"] != "translate" else []), [], {k: 0.0 for k in obs}
        for name in ("A", "B"):
            for fr in runs[name]:
                for k in obs:
                    ev.append({"run": name, "key": f"step{fr['step']}/{k}", "q": [int(round(float(x) / scale[k] * 1e6)) for x in fr[k]]})
                if a.get("screening") and fr["iters"] is not None:
                    # the per-step record of the number of screening iterations (bit-for-bit relation: tolerance 0)
                    ev_exact.append({"run": name, "key": f"steps up to {fr['step']}/screening_iterations", "q": fr["iters"]})
        for fa, fb in zip(runs["A"], runs["B"]):
            for k in obs:
                worst[k] = max(worst[k], float(np.abs(fa[k] - fb[k]).max()) / scale[k])
        if ramp:      # vacuity guard: the recorded applied potential really changed from frame to frame
            info["distinct_applied_potentials"] = len({fr["A_applied"].tobytes() for fr in runs["A"] if fr["A_applied"] is not None})
        if a.get("screening"):
            info["screening_iterations"] = {nm: [x for fr in runs[nm] for x in (fr["iters"] or [])] for nm in ("A", "B")}
        info.update({"frames": [len(runs["A"]), len(runs["B"])], "steps": [runs["A"][-1]["step"], runs["B"][-1]["step"]],
                     "scale": scale, "worst_relative_difference": worst,
                     "psi_moved": float(np.abs(runs["A"][-1]["abs_psi"] - runs["A"][0]["abs_psi"]).max()),
                     "max_supercurrent": float(max(np.abs(fr["supercurrent"]).max() for fr in runs["A"])),
                     "max_phase_difference_between_gauges": float(max(np.abs(np.angle(fb["psi"] * np.conj(fa["psi"]) + 1e-300)).max()
                                                                   for fa, fb in zip(runs["A"], runs["B"])))})
        return {"args": a, "ev": ev, "ev_exact": ev_exact, "info": info}
    finally:
        tempfile.tempdir = old_tempdir
        os.chdir(cwd)
        shutil.rmtree(work, ignore_errors=True)
