"""Structural binding of spec/Kernel.tla to the numba kernels (C09, DESIGN.md 4.5).

`extract_all(repo)` parses the kernels' source with `ast` and returns, for each kernel, the loop
SKELETON that is a CONSTANT of the Kernel specification:

    loops     kind of each loop of the nest, outermost first ("prange" | "range")
    ext       trip count per loop (small integers chosen per distinct symbolic bound, see `_bounds`)
    accs      accumulators = names that are the target of `+=`:   init = depth of the loop body in which
              `name = <const>` sits (0 = function level), add = depth of the body holding `name += ...`
    stores    `out[idx] = expr`: at = depth of the body, idx = per subscript [var = loop depth | 0, off],
              src = accumulators read by expr (<<>> = pure function of the iteration)
    outadds   `out[idx] += expr`
    shape     extent per output axis, outinit "garbage" (np.empty, also for a caller-provided buffer
              allocated with np.empty) | "zero" (np.zeros)
    fastmath, parallel   decorator flags

Nothing here decides anything: the record is rendered as a TLA+ value and TLC checks
ScheduleIndependent / NoGarbageLeft / StoresInBounds on it.

The second half replays TLC-generated schedules (claim orders of the parallel index) into the REAL
kernel bodies (`kernel.py_func` with `numba.prange` yielding the scheduled order, outputs allocated by a
poisoned `np.empty`) and runs the compiled kernels under several thread counts: observations for Twin.
"""
from __future__ import annotations

import ast
import hashlib
import os
from pathlib import Path

# kernel table: file, function, output (a parameter name, or None = the array that is returned),
# contract shape of a caller-provided output (symbolic extents, from the docstrings) and where the caller allocates it
KERNELS = [
    dict(file="tdgl/solver/screening.py", func="get_A_induced_numba", out="A_induced",
         shape=["edge_centers.shape[0]", "J_site.shape[1]"],
         caller=dict(file="tdgl/solver/solver.py", attr="new_A_induced")),
    dict(file="tdgl/distance.py", func="sqeuclidean_distance_2d", out=None),
    dict(file="tdgl/distance.py", func="sqeuclidean_distance_3d", out=None),
    dict(file="tdgl/distance.py", func="euclidean_distance_2d", out=None),
    dict(file="tdgl/distance.py", func="euclidean_distance_3d", out=None),
    dict(file="tdgl/em.py", func="_biot_savart_1d_vector", out=None),
    dict(file="tdgl/em.py", func="_biot_savart_2d_z", out=None),
    dict(file="tdgl/em.py", func="_biot_savart_2d_vector", out=None),
]


class SkeletonError(Exception):
    """The kernel has a shape the extractor does not understand (machinery failure, not a verdict)."""


def _src(node) -> str:
    s = ast.unparse(node).replace(" ", "")
    # len(x) and x.shape[0] are the same extent
    if s.startswith("len(") and s.endswith(")"):
        s = s[4:-1] + ".shape[0]"
    return s


def _call_name(node) -> str:
    if isinstance(node, ast.Call):
        f = node.func
        if isinstance(f, ast.Attribute):
            return f.attr
        if isinstance(f, ast.Name):
            return f.id
    return ""


def _flags(fn: ast.FunctionDef):
    fl = {"njit": False, "parallel": False, "fastmath": False}
    for d in fn.decorator_list:
        name = _call_name(d) if isinstance(d, ast.Call) else (d.attr if isinstance(d, ast.Attribute) else getattr(d, "id", ""))
        if name in ("njit", "jit"):
            fl["njit"] = True
            if isinstance(d, ast.Call):
                for kw in d.keywords:
                    if kw.arg in ("parallel", "fastmath"):
                        try:
                            fl[kw.arg] = bool(ast.literal_eval(kw.value))
                        except Exception:
                            fl[kw.arg] = True   # a set of flags / expression: treated as enabled
    return fl


class _Visitor:
    def __init__(self, fn: ast.FunctionDef, outname):
        self.fn = fn
        self.outname = outname
        self.loops = []          # [kind, var, bound-src]
        self.inits = {}          # name -> depth of first constant assignment
        self.adds = {}           # name -> depth
        self.stores = []         # dict(at, target, idx nodes, value node)
        self.outadds = []
        self.alloc = {}          # name -> (kind, shape-srcs)
        self.returned = None
        self.vars = {}           # loop var -> depth
        self.maxdepth = 0
        self.notes = []
        self._walk(fn.body, 0)

    def _walk(self, body, depth):
        for st in body:
            if isinstance(st, ast.For):
                kind = _call_name(st.iter)
                if kind not in ("prange", "range") or not isinstance(st.target, ast.Name):
                    raise SkeletonError(f"loop over {ast.unparse(st.iter)} not understood")
                args = st.iter.args
                if len(args) != 1:
                    bound = _src(st.iter)     # range(a, b): an unknown extent
                else:
                    bound = _src(args[0])
                d = depth + 1
                if len(self.loops) >= d:
                    raise SkeletonError("two loops at the same depth: not a simple nest")
                self.loops.append([kind, st.target.id, bound])
                self.vars[st.target.id] = d
                self._walk(st.body, d)
            elif isinstance(st, ast.Assign) and len(st.targets) == 1:
                t = st.targets[0]
                if isinstance(t, ast.Name):
                    cn = _call_name(st.value)
                    if cn in ("empty", "zeros", "empty_like", "zeros_like"):
                        shp = st.value.args[0] if st.value.args else None
                        if isinstance(shp, ast.Tuple):
                            dims = [_src(e) for e in shp.elts]
                        else:
                            dims = [_src(shp)] if shp is not None else []
                        self.alloc[t.id] = ("garbage" if cn.startswith("empty") else "zero", dims, depth)
                    else:
                        self.inits.setdefault(t.id, []).append((depth, st.value))
                elif isinstance(t, ast.Subscript) and isinstance(t.value, ast.Name):
                    self.stores.append(dict(at=depth, target=t.value.id, idx=self._subs(t), value=st.value))
            elif isinstance(st, ast.AugAssign):
                t = st.target
                if isinstance(t, ast.Name):
                    self.adds.setdefault(t.id, []).append(depth)
                elif isinstance(t, ast.Subscript) and isinstance(t.value, ast.Name):
                    self.outadds.append(dict(at=depth, target=t.value.id, idx=self._subs(t), value=st.value))
            elif isinstance(st, ast.Return):
                if isinstance(st.value, ast.Name):
                    self.returned = st.value.id
            elif isinstance(st, ast.If):
                # pessimistic about nothing, optimistic about nothing: both branches are taken as executed
                self.notes.append(f"if at depth {depth}: both branches treated as executed")
                self._walk(st.body, depth)
                self._walk(st.orelse, depth)
            elif isinstance(st, ast.With):
                self._walk(st.body, depth)
            elif isinstance(st, (ast.While, ast.Try)):
                if depth > 0 or any(isinstance(n, ast.For) for n in ast.walk(st)):
                    raise SkeletonError(f"control flow around/inside the loop nest ({type(st).__name__}) not modelled")

    @staticmethod
    def _subs(t: ast.Subscript):
        s = t.slice
        return list(s.elts) if isinstance(s, ast.Tuple) else [s]

    def index_term(self, node):
        """-> [loop depth or 0, 1-based offset]"""
        if isinstance(node, ast.Name) and node.id in self.vars:
            return {"var": self.vars[node.id], "off": 0}
        if isinstance(node, ast.Constant) and isinstance(node.value, int):
            return {"var": 0, "off": node.value + 1}
        if (isinstance(node, ast.BinOp) and isinstance(node.op, (ast.Add, ast.Sub)) and isinstance(node.left, ast.Name)
                and node.left.id in self.vars and isinstance(node.right, ast.Constant) and isinstance(node.right.value, int)):
            c = node.right.value if isinstance(node.op, ast.Add) else -node.right.value
            return {"var": self.vars[node.left.id], "off": c}
        if isinstance(node, ast.Slice) and node.lower is None and node.upper is None and node.step is None:
            return {"var": 0, "off": 0, "all": True}        # `:` — every index of the axis (expanded by `extract`)
        # anything else: not a function of the iteration that the model can see -> a fixed cell
        return {"var": 0, "off": 1}


def extract(repo: Path, spec: dict, n_outer=3, n_inner=3, n_other=2) -> dict:
    path = Path(repo) / spec["file"]
    tree = ast.parse(path.read_text())
    fn = next((n for n in ast.walk(tree) if isinstance(n, ast.FunctionDef) and n.name == spec["func"]), None)
    if fn is None:
        raise SkeletonError(f"{spec['func']} not found in {path}")
    v = _Visitor(fn, spec.get("out"))
    fl = _flags(fn)
    outname = spec.get("out") or v.returned
    if outname is None:
        raise SkeletonError(f"{spec['func']}: no output array identified")
    if outname in v.alloc:
        outinit, axes, _ = v.alloc[outname]
    else:
        axes = list(spec.get("shape") or [])
        outinit = caller_alloc(repo, spec["caller"]) if spec.get("caller") else "garbage"
    if not v.loops:
        raise SkeletonError(f"{spec['func']}: no loop nest")
    D = len(v.loops)
    accn = sorted(v.adds)                                   # accumulators, by name
    accs = []
    for a in accn:
        consts = [d for d, val in v.inits.get(a, [])]
        if a in v.alloc and v.alloc[a][0] == "zero":
            consts.append(v.alloc[a][2])      # `A = np.zeros(n)` ... `A += term`: a whole-array accumulator (np.empty: never initialised)
        # the initialisation that governs the fold is the innermost one that encloses the `+=`
        add = max(v.adds[a])
        enclosing = [d for d in consts if d <= add]
        init = max(enclosing) if enclosing else -1           # -1: never initialised (reads garbage)
        accs.append({"name": a, "init": init, "add": add})
    stores, outadds = [], []
    rank = None
    for s in v.stores:
        if s["target"] != outname:
            continue
        used = sorted({accn.index(n.id) + 1 for n in ast.walk(s["value"]) if isinstance(n, ast.Name) and n.id in accn})
        stores.append({"at": s["at"], "idx": [v.index_term(e) for e in s["idx"]], "src": used})
        rank = len(s["idx"]) if rank is None else min(rank, len(s["idx"]))
    for s in v.outadds:
        if s["target"] != outname:
            continue
        outadds.append({"at": s["at"], "idx": [v.index_term(e) for e in s["idx"]]})
        rank = len(s["idx"]) if rank is None else min(rank, len(s["idx"]))
    if rank is None:
        raise SkeletonError(f"{spec['func']}: the output {outname} is never written")
    for s in stores + outadds:
        if len(s["idx"]) != rank:
            raise SkeletonError(f"{spec['func']}: writes to {outname} with different subscript ranks")
    axes = axes[:rank]
    if len(axes) < rank:
        raise SkeletonError(f"{spec['func']}: shape of {outname} unknown")
    ext, shape = _bounds(v, axes, stores + outadds, n_outer, n_inner, n_other)
    stores, outadds = _expand_slices(stores, shape), _expand_slices(outadds, shape)
    return {
        "name": spec["func"], "loops": [l[0] for l in v.loops], "ext": ext,
        "accs": [{"init": a["init"], "add": a["add"]} for a in accs],
        "stores": stores, "outadds": outadds, "shape": shape, "outinit": outinit,
        "fastmath": fl["fastmath"], "parallel": fl["parallel"],
        # documentation only (not read by the model)
        "_doc": {"loopvars": [l[1] for l in v.loops], "bounds": [l[2] for l in v.loops], "axes": axes,
                 "accs": [a["name"] for a in accs], "out": outname, "file": spec["file"], "notes": v.notes},
    }


def _expand_slices(writes, shape):
    """`out[:, 0] = x` writes every cell of the axis: one write per index."""
    import itertools
    res = []
    for w in writes:
        axes_all = [m for m, t in enumerate(w["idx"]) if t.get("all")]
        for combo in itertools.product(*[range(1, shape[m] + 1) for m in axes_all]):
            idx = [dict(var=t["var"], off=t["off"]) for t in w["idx"]]
            for m, i in zip(axes_all, combo):
                idx[m] = {"var": 0, "off": i}
            res.append(dict(w, idx=idx))
    return res


def _bounds(v, axes, writes, n_outer, n_inner, n_other):
    """Small trip counts: one integer per distinct symbolic extent.  A loop whose variable subscripts
    output axis m but whose bound is not that axis' extent gets extent-1 (the relation is unknown to the
    model; the smaller value exhibits cells that are never written)."""
    D = len(v.loops)
    val = {}
    shape = []
    for m, ax in enumerate(axes):
        if ax.lstrip("-").isdigit():
            shape.append(int(ax))
            continue
        if ax not in val:
            val[ax] = n_outer if m == 0 else n_other
        shape.append(val[ax])
    ext = []
    for d, (kind, var, bound) in enumerate(v.loops, start=1):
        if bound.isdigit():
            ext.append(int(bound))
            continue
        if bound in val:
            ext.append(val[bound])
            continue
        axis = next((m for w in writes for m, t in enumerate(w["idx"]) if t["var"] == d and t["off"] == 0), None)
        if axis is not None:
            ext.append(max(1, shape[axis] - 1))
        else:
            val[bound] = n_inner if d == D else n_other
            ext.append(val[bound])
    return ext, shape


def caller_alloc(repo: Path, caller: dict) -> str:
    """How the caller allocates the buffer it passes as output: np.empty -> garbage, np.zeros -> zero."""
    tree = ast.parse((Path(repo) / caller["file"]).read_text())
    kinds = set()
    for n in ast.walk(tree):
        if isinstance(n, ast.Assign) and len(n.targets) == 1 and isinstance(n.targets[0], ast.Attribute) \
                and n.targets[0].attr == caller["attr"]:
            cn = _call_name(n.value)
            if cn.startswith("empty"):
                kinds.add("garbage")
            elif cn.startswith("zeros"):
                kinds.add("zero")
    if not kinds or "garbage" in kinds:
        return "garbage"
    return "zero"


def extract_all(repo, **kw):
    return [extract(repo, k, **kw) for k in KERNELS]


def to_tla(sk: dict) -> dict:
    """The part of the skeleton that the model reads."""
    return {k: v for k, v in sk.items() if not k.startswith("_")}


def mc_module(name: str, skeletons) -> str:
    from . import core
    body = ",\n   ".join(core.tla_str(to_tla(s)) for s in skeletons)
    return (f"---- MODULE {name} ----\n\\* generated by harness/kernelsk.py from the kernels' AST\nEXTENDS Kernel\n"
            f"cSkeletons == <<\n   {body}\n>>\n====\n")


# --------------------------------------------------------------------------- replay of schedules


def _poison(np, seed):
    """A legal np.empty: the content of a fresh buffer is unspecified; fill it with seed-dependent junk."""
    orig = np.empty
    rng = np.random.RandomState(seed)
    busy = [False]

    def empty(shape, dtype=float, *a, **k):
        arr = orig(shape, dtype, *a, **k)
        if busy[0] or arr.dtype.kind not in "fc" or arr.size == 0:
            return arr
        busy[0] = True          # numpy itself calls np.empty while drawing the junk
        try:
            arr[...] = rng.uniform(-1e3, 1e3, size=arr.shape)
        finally:
            busy[0] = False
        return arr
    return orig, empty


def _inputs(np, name, n_out, n_in, seed=7):
    """Inputs on which floating-point addition is visibly non-associative (huge cancelling terms)."""
    rng = np.random.RandomState(seed)
    big = np.array([1e16, 3.0, -1e16, 7.0, 1e15, -1e15, 0.1, 11.0, -5e15, 5e15])

    def mix(shape):
        a = rng.uniform(0.5, 1.5, size=shape)
        flat = a.reshape(-1)
        flat *= np.resize(big, flat.shape)
        return a
    if name == "get_A_induced_numba":
        sites = rng.uniform(-2, 2, size=(n_in, 2))
        ec = rng.uniform(-2, 2, size=(n_out, 2)) + 5.0
        return dict(J_site=mix((n_in, 2)), site_areas=rng.uniform(0.5, 1.5, size=n_in), sites=sites, edge_centers=ec)
    if "distance" in name:
        dim = 3 if name.endswith("3d") else 2
        return dict(XA=mix((n_out, dim)), XB=mix((n_in, dim)))
    if name == "_biot_savart_1d_vector":
        return dict(eval_positions=rng.uniform(-2, 2, size=(n_out, 3)) + 6.0, current_positions=rng.uniform(-2, 2, size=(n_in, 3)),
                    current_vectors=rng.uniform(-1, 1, size=(n_in, 3)), currents=mix((n_in,)))
    if name.startswith("_biot_savart_2d"):
        pos = np.concatenate([rng.uniform(-2, 2, size=(n_in, 2)), np.zeros((n_in, 1))], axis=1)
        ev = rng.uniform(-2, 2, size=(n_out, 3)) + np.array([0, 0, 5.0])
        return dict(eval_positions=ev, positions=pos, current_densities=mix((n_in, 2)), areas=rng.uniform(0.5, 1.5, size=n_in))
    raise KeyError(name)


def _hash(np, a):
    a = np.ascontiguousarray(a)
    return hashlib.sha256(str(a.dtype).encode() + str(a.shape).encode() + a.tobytes()).hexdigest()[:16]


def replay_schedules(tdgl, args, tmp):
    """Runs every kernel (a) compiled, under each requested thread count, and (b) as its Python body with
    numba.prange yielding the parallel index in each scheduled order; caller-provided outputs start as
    seed-dependent junk and in-kernel np.empty is poisoned in (b).  Returns observations
    [{kernel, run, hash}] — nothing is compared here."""
    import importlib

    import numba
    import numpy as np

    obs = []
    n_out, n_in = args.get("n_out", 13), args.get("n_in", 10)
    mods = {"tdgl/solver/screening.py": "tdgl.solver.screening", "tdgl/distance.py": "tdgl.distance", "tdgl/em.py": "tdgl.em"}
    for spec in KERNELS:
        mod = importlib.import_module(mods[spec["file"]])
        k = getattr(mod, spec["func"])
        name = spec["func"]
        inp = _inputs(np, name, n_out, n_in)

        def call(f, junk_seed):
            a = {n: v.copy() for n, v in inp.items()}
            if spec["out"]:
                out = np.random.RandomState(junk_seed).uniform(-1e3, 1e3, size=(n_out, 2))
                f(a["J_site"], a["site_areas"], a["sites"], a["edge_centers"], out)
                return out
            return f(*a.values())

        for nt in args.get("threads", [1, 2, 3]):
            if nt > numba.config.NUMBA_NUM_THREADS:
                continue
            numba.set_num_threads(nt)
            obs.append({"kernel": name, "run": f"jit/T{nt}", "hash": _hash(np, call(k, 100 + nt))})
        numba.set_num_threads(min(4, numba.config.NUMBA_NUM_THREADS))
        py = getattr(k, "py_func", None)
        if py is None:
            continue
        g = py.__globals__
        nb = g.get("numba")
        orig_prange = nb.prange
        for n, order in enumerate(args.get("orders", {}).get(name, [])):
            orig_empty, poisoned = _poison(np, 1000 + n)

            class sched:     # numba.prange(n) in interpreted mode: the scheduled claim order, extended to n
                def __new__(cls, stop, order=order):
                    base = [x - 1 for x in order if x - 1 < stop]
                    rest = [x for x in range(stop) if x not in base]
                    # the model has few parallel indices; the remaining ones follow in blocks interleaved the same way
                    return iter(base + rest[::-1] if n % 2 else base + rest)
            try:
                nb.prange = sched
                np.empty = poisoned
                with np.errstate(all="ignore"):
                    res = call(py, 500 + n)
            finally:
                nb.prange = orig_prange
                np.empty = orig_empty
            obs.append({"kernel": name, "run": f"py/order{n}:{''.join(map(str, order))}", "hash": _hash(np, res)})
    return obs
