"""Binding of spec/Units.tla to the real code (C08).

* one PHYSICAL device expressed in several unit systems: `twin_device` builds the device with scaled
  numbers and shares ONE dimensionless mesh (re-meshing an outline expressed in other units gives another
  triangulation — a property of Triangle, not of unit handling);
* `observe_solver`: constructs the REAL TDGLSolver and reads A_scale, current_func, screening weights,
  K0, Bc2, and the oriented link sums of solver.current_A_applied round every mesh triangle;
* `exact_triangles`: integer triangles (from TLC) through the real symmetric-gauge code;
* `run_twin`: a full real solve, returned as gauge-invariant dimensionless observables per frame and the
  physical current density in A/m (for Twin.Related).
Only concretisation / recording / abstraction (quantisation) happens here; TLC decides."""
from __future__ import annotations

import math
import os
import tempfile

LEN = {-9: "nm", -6: "um", -3: "mm"}
FLD = {-6: "uT", -3: "mT", 0: "T"}
CUR = {-9: "nA", -6: "uA", -3: "mA"}
QUANTUM = 1e-12          # residuals of constructor-level scales are reported in units of 1e-12 (relative)
RCLIP = 10 ** 9

# the physical problem (SI); the mesh is dimensionless and shared
PHYS = dict(XI=0.8e-6, LAM=1.6e-6, D=1.0e-7, SIG=2.5e6, B=4.0e-4, I=3.0e-6, Z0=0.6e-6)
# the LIFTED variants of the device lie in the plane z = Z0 (Layer.z0 is 0 by default: a dimension of its own); there the applied field
# depends on the height, B(z) = B (1 + z / ZC), so that the height the solver hands to the applied potential matters: B(Z0) = 1.5 B
Z0_UM = 0.6
ZC_UM = 1.2
Z0_FORMS = ("layer", "translate", "translate-inplace", "layer-edit")
# literal SI values (CODATA 2018/2022; h and e are exact by definition of the SI): the ABSOLUTE reference of every scale.
# Nothing here is read from tdgl / pint: a constant that is wrong inside the package must not cancel out of the comparison.
H_PLANCK = 6.62607015e-34
E_CHARGE = 1.602176634e-19
PHI0_SI = H_PLANCK / (2 * E_CHARGE)           # 2.067833848...e-15 Wb
MU0_SI = 1.25663706127e-6                     # N / A^2 (CODATA 2022; CODATA 2018 differs by 7e-10, inside the tolerance of 1e-9)
FIELD_POINTS_UM = [[0.3, 0.2, 0.5], [-1.0, 0.7, 1.0], [2.0, -1.0, 0.4], [4.0, 3.0, 2.0], [0.0, 0.0, -0.8]]   # (x, y, z) off the film plane
GEOM = dict(W=5.0, H=3.0, term=0.1, hole=(0.6, 0.2, 0.1), mel=0.8)      # in micrometres (the reference unit system)


def unit_names(u):
    return LEN[u[0]], FLD[u[1]], CUR[u[2]]


def _build(tdgl, kind, s, length_units, probes=True, wrong=None, z0_um=0.0):
    """The device with every length multiplied by s (s = 1 um expressed in length_units); z0_um: height of the film plane."""
    from tdgl.geometry import box, circle

    g = GEOM
    f = wrong or {}          # (history) factors by which the parameters are first stated WRONGLY, to be corrected in place later
    layer = tdgl.Layer(coherence_length=PHYS["XI"] * 1e6 * s * f.get("xi", 1.0), london_lambda=PHYS["LAM"] * 1e6 * s * f.get("lam", 1.0),
                       thickness=PHYS["D"] * 1e6 * s * f.get("d", 1.0), conductivity=PHYS["SIG"] * 1e-6 / s, gamma=10.0,
                       **({"z0": z0_um * s * f.get("z0", 1.0)} if z0_um else {}))
    W, H = g["W"] * s, g["H"] * s
    film = tdgl.Polygon("film", points=box(W, H, points=48))
    holes = []
    if kind == "barhole":
        r, cx, cy = g["hole"]
        holes = [tdgl.Polygon("hole", points=circle(r * s, points=16, center=(cx * s, cy * s)))]
    terms = [tdgl.Polygon("source", points=box(g["term"] * s, H, center=(-W / 2, 0))),
             tdgl.Polygon("drain", points=box(g["term"] * s, H, center=(W / 2, 0)))]
    pp = [(-1.5 * s, 0.0), (1.5 * s, 0.0)] if probes else None
    return tdgl.Device(kind, layer=layer, film=film, holes=holes, terminals=terms, probe_points=pp, length_units=length_units)


_BASE = {}


def base_device(tdgl, kind):
    if kind not in _BASE:
        dev = _build(tdgl, kind, 1.0, "um")
        dev.make_mesh(max_edge_length=GEOM["mel"], smooth=0)
        _BASE[kind] = dev
    return _BASE[kind]


def twin_device(tdgl, kind, u):
    """Same physical device in unit system u, on the SAME dimensionless mesh object."""
    base = base_device(tdgl, kind)
    if u[0] == -6:
        return base
    dev = _build(tdgl, kind, 10.0 ** (-6 - u[0]), LEN[u[0]])
    dev.mesh = base.mesh
    return dev


def edited_device(tdgl, kind, u, prior_solver=False):
    """History: the device is first built with WRONG layer parameters, its scales are read (optionally a solver is constructed
    on it), then the layer is corrected IN PLACE (attribute assignment, no new Layer object) and the shared dimensionless mesh
    (which belongs to the correct xi) is assigned.  -> (device, scales seen before the edit)"""
    base = base_device(tdgl, kind)
    s = 10.0 ** (-6 - u[0])
    # (with a prior solver the coherence length is stated correctly: the geometry is xi * mesh and must fit the terminals)
    dev = _build(tdgl, kind, s, LEN[u[0]], wrong=dict(lam=0.8, d=2.0) if prior_solver else dict(xi=1.25, lam=0.8, d=2.0))
    pre = {"K0": float(dev.K0.to_base_units().magnitude), "Bc2": float(dev.Bc2.to_base_units().magnitude), "A0": float(dev.A0.to("T * m").magnitude)}
    if prior_solver:
        dev.mesh = base.mesh
        ln, fu, cu = unit_names(u)
        tdgl.TDGLSolver(dev, tdgl.SolverOptions(solve_time=1.0, field_units=fu, current_units=cu), applied_vector_potential=numbers(u)["B"],
                        terminal_currents={"source": numbers(u)["I"], "drain": -numbers(u)["I"]})
    dev.layer.coherence_length = PHYS["XI"] * 1e6 * s
    dev.layer.london_lambda = PHYS["LAM"] * 1e6 * s
    dev.layer.thickness = PHYS["D"] * 1e6 * s
    dev.mesh = base.mesh
    return dev, pre


def lifted_device(tdgl, kind, u, form):
    """The same physical device with its film in the plane z = Z0_UM micrometres, on the shared dimensionless mesh.  The height reaches
    the package as: 'layer' Layer(z0=...); 'translate' Device.translate(dz=...) of the flat device (a new device, meshed afterwards);
    'translate-inplace' Device.translate(dz=..., inplace=True) of the flat, meshed device; 'layer-edit' stated wrongly (3 x) in the
    Layer and corrected by attribute assignment.  Always a NEW device object (the flat base device is never touched)."""
    base = base_device(tdgl, kind)
    s = 10.0 ** (-6 - u[0])
    if form == "layer":
        dev = _build(tdgl, kind, s, LEN[u[0]], z0_um=Z0_UM)
        dev.mesh = base.mesh
    elif form == "translate":
        dev = _build(tdgl, kind, s, LEN[u[0]]).translate(dz=Z0_UM * s)
        dev.mesh = base.mesh
    elif form == "translate-inplace":
        dev = _build(tdgl, kind, s, LEN[u[0]])
        dev.mesh = base.mesh
        if dev.translate(dz=Z0_UM * s, inplace=True) not in (None, dev):
            raise RuntimeError("translate(inplace=True) returned another device")
    elif form == "layer-edit":
        dev = _build(tdgl, kind, s, LEN[u[0]], z0_um=Z0_UM, wrong=dict(z0=3.0))
        dev.mesh = base.mesh
        dev.layer.z0 = Z0_UM * s
    else:
        raise ValueError(form)
    return dev


def height_dependent_field(x, y, z, *, B0, zc):
    """The harness' own applied vector potential A = B(z) / 2 (-y, x, 0) with B(z) = B0 (1 + z / zc): numbers in field_units *
    length_units for positions in length_units (B0 in field_units, zc in length_units).  Symmetric gauge about the origin."""
    import numpy as np

    x, y = np.asarray(x, dtype=float), np.asarray(y, dtype=float)
    Bz = B0 * (1.0 + np.asarray(z, dtype=float) * np.ones_like(x) / zc)
    return np.stack([-Bz * y / 2, Bz * x / 2, np.zeros_like(x)], axis=1)


def si_sums(np, sites, areas, z0_um, Ks, Kn, pos_um, B_of_z=None):
    """The fields and potentials of sheet currents Ks, Kn [A/m] at the sites XI * sites in the plane z = z0_um, evaluated at pos_um
    (micrometres), written out in SI with LITERAL XI and mu_0 (docstrings of biot_savart_2d and vector_potential_at_position):
        B(r) = mu_0 / (4 pi) sum_k a_k K_k x (r - r_k) / |r - r_k|^3,      A(r) = mu_0 / (4 pi) sum_k a_k K_k / |r - r_k|.
    -> {key: flat list}, the keys of run_twin's `fields`.  Nothing here comes from the package except the currents themselves."""
    r = np.asarray(sites, dtype=float) * PHYS["XI"]
    a = np.asarray(areas, dtype=float) * PHYS["XI"] ** 2
    ev = np.asarray(pos_um, dtype=float) * 1e-6
    dx = ev[:, None, 0] - r[None, :, 0]
    dy = ev[:, None, 1] - r[None, :, 1]
    dz = (ev[:, 2] - z0_um * 1e-6)[:, None] * np.ones_like(dx)
    R = np.sqrt(dx * dx + dy * dy + dz * dz)
    pref = MU0_SI / (4 * math.pi) * a[None, :]

    def B(K):
        w = pref / R ** 3
        return np.stack([np.sum(w * K[None, :, 1] * dz, axis=1), -np.sum(w * K[None, :, 0] * dz, axis=1),
                         np.sum(w * (K[None, :, 0] * dy - K[None, :, 1] * dx), axis=1)], axis=1)

    def A(K):
        w = pref / R
        return np.stack([np.sum(w * K[None, :, 0], axis=1), np.sum(w * K[None, :, 1], axis=1), np.zeros(len(ev))], axis=1)

    Ks, Kn = np.asarray(Ks, dtype=float), np.asarray(Kn, dtype=float)
    fl = lambda v: np.asarray(v, dtype=float).reshape(-1).tolist()
    out = {"Bz_total[T]": fl(B(Ks + Kn)[:, 2]), "Bvec_total[T]": fl(B(Ks + Kn)), "Bz_super[T]": fl(B(Ks)[:, 2]), "Bvec_normal[T]": fl(B(Kn)),
           "A_super[T*m]": fl(A(Ks)), "A_normal[T*m]": fl(A(Kn))}
    if B_of_z is not None:          # the applied potential is the harness' own function: A = B(z) / 2 (-y, x, 0)
        Bz = B_of_z(ev[:, 2])
        ap = np.stack([-Bz * ev[:, 1] / 2, Bz * ev[:, 0] / 2, np.zeros(len(ev))], axis=1)
        out["A_applied[T*m]"] = fl(ap)
        out["A_total[T*m]"] = fl(ap + A(Ks) + A(Kn))
    return out


def observe_sheet(tdgl, args, tmp):
    """Constructor level, lifted device in unit system u (the height given in form args['form']):
    SolverZ — the z the REAL TDGLSolver hands to the applied vector potential together with the edge centres (recorded by the harness'
              own potential function, which sees exactly what the solver passes);
    SheetZ  — the height at which the public tdgl.em.biot_savart_2d places a current sheet 'located at vertical position z0 (in units
              of length_units)': one current element K = (Kx, 0) of area a at the origin of the plane z = z0, field evaluated at the
              origin of the plane z = 0: |B_y| = mu_0 / (4 pi) a Kx / h^2 exactly, so h = sqrt(mu_0 a Kx / (4 pi |B_y|)) in metres.
              The area and the current density are the mesh-cell area XI^2 and K0-sized numbers stated in the unit system."""
    import numpy as np
    from tdgl.em import biot_savart_2d

    u = args["u"]
    form = args.get("form", "layer")
    ln, fu, cu = unit_names(u)
    dev = lifted_device(tdgl, args.get("kind", "bar"), u, form)
    nums = numbers(u)
    s = 10.0 ** (-6 - u[0])
    seen = []

    def recording(x, y, z, *, B0, zc):
        seen.append(np.asarray(z, dtype=float) * np.ones_like(np.asarray(x, dtype=float)))
        return height_dependent_field(x, y, z, B0=B0, zc=zc)

    opt = tdgl.SolverOptions(solve_time=1.0, field_units=fu, current_units=cu, output_file=os.path.join(tempfile.mkdtemp(dir=tmp), "o.h5"))
    tdgl.TDGLSolver(dev, opt, applied_vector_potential=tdgl.Parameter(recording, B0=nums["B"], zc=ZC_UM * s),
                    terminal_currents={"source": nums["I"], "drain": -nums["I"]})
    if not seen:
        raise RuntimeError("the solver never evaluated the applied vector potential")
    zs = np.concatenate([np.atleast_1d(v).reshape(-1) for v in seen])
    obs = {"SolverZ": float(zs.mean()), "SolverZ_spread": float(np.ptp(zs) / (Z0_UM * s)), "n_calls": len(seen)}
    # the public Biot-Savart function, with the height the DEVICE reports for its layer (what Solution.field_at_position passes on) and
    # with the height the harness typed: both must be the plane z = Z0
    a_num = (PHYS["XI"] * 1e6 * s) ** 2                   # area of one cell, in length_units ** 2
    k_num = 1.0e-2 / 10.0 ** (u[2] - u[0])                # 1e-2 A/m in current_units / length_units
    heights = {}
    for who, z0_num in (("typed", Z0_UM * s), ("device", float(dev.layer.z0))):
        Bv = biot_savart_2d(0.0, 0.0, 0.0, positions=np.array([[0.0, 0.0]]), current_densities=np.array([[k_num, 0.0]]), z0=z0_num,
                            areas=np.array([a_num]), length_units=ln, current_units=cu, vector=True)
        By = abs(float(np.asarray(Bv.to("tesla").magnitude).reshape(-1)[1]))
        heights[who] = math.sqrt(MU0_SI / (4 * math.pi) * PHYS["XI"] ** 2 * 1.0e-2 / By) if By > 0 else float("inf")
    obs["SheetZ"] = heights["device"]
    obs["SheetZ_typed"] = heights["typed"]
    return {"u": u, "form": form, "obs": obs}


def numbers(u):
    """What the user types for the physical problem in unit system u."""
    return dict(B=PHYS["B"] / 10.0 ** u[1], I=PHYS["I"] / 10.0 ** u[2])


def constants(tdgl):
    """Numeric values of the symbols of the model: the requested physical parameters and LITERAL SI constants."""
    v = dict(PHYS)
    v.update(ten=10.0, two=2.0, pi=math.pi, S=1.0, L=1.0, AR=1.0, Phi0=PHI0_SI, mu0=MU0_SI)
    return v


def evaluate(mono, vals):
    r = 1.0
    for k, e in mono.items():
        if e:
            r *= vals[k] ** e
    return r


def quanta(obs, pred):
    if not (pred == pred and obs == obs) or pred == 0:
        return RCLIP
    return int(min(RCLIP, round(abs(obs / pred - 1.0) / QUANTUM)))


def observe_solver(tdgl, args, tmp):
    """Construct the real solver for unit system u; return the observed scales (floats)."""
    import numpy as np

    u = args["u"]
    ln, fu, cu = unit_names(u)
    pre = None
    if args.get("history") == "layer-edit":
        dev, pre = edited_device(tdgl, args.get("kind", "bar"), u, prior_solver=args.get("prior_solver", False))
    else:
        dev = twin_device(tdgl, args.get("kind", "bar"), u)
    nums = numbers(u)
    opt = tdgl.SolverOptions(solve_time=1.0, field_units=fu, current_units=cu, include_screening=True,
                             output_file=os.path.join(tempfile.mkdtemp(dir=tmp), "o.h5"))
    solver = tdgl.TDGLSolver(dev, opt, applied_vector_potential=nums["B"], terminal_currents={"source": nums["I"], "drain": -nums["I"]})
    mesh = dev.mesh
    w = np.asarray(solver.areas) / np.asarray(mesh.areas)
    obs = {
        "AScale": float(solver.A_scale),
        "CurScaled": float(solver.current_func(0.0)["source"]),
        "ScreenW": float(w.mean()), "ScreenW_spread": float(np.ptp(w) / abs(w.mean())),
        "K0": float(dev.K0.to_base_units().magnitude), "Bc2": float(dev.Bc2.to_base_units().magnitude),
        "xi": float(dev.coherence_length.to("m").magnitude), "lambda": float(dev.london_lambda.to("m").magnitude),
        "Lambda": float(dev.Lambda.to("m").magnitude), "A0": float(dev.A0.to("T * m").magnitude),
        "tau0": float(dev.tau0().to("s").magnitude), "V0": float(dev.V0().to("V").magnitude),
    }
    if pre is not None:
        obs["pre_edit"] = pre
    # oriented sum of link exponents round each triangle, on solver.current_A_applied
    A = np.asarray(solver.current_A_applied)
    em = mesh.edge_mesh
    expo = np.einsum("ij,ij->i", A, em.directions)
    index = {(int(a), int(b)): n for n, (a, b) in enumerate(em.edges)}
    sites = mesh.sites
    sums, areas = [], []
    for tri in mesh.elements:
        tot = 0.0
        for p, q in ((tri[0], tri[1]), (tri[1], tri[2]), (tri[2], tri[0])):
            p, q = int(p), int(q)
            if (p, q) in index:
                tot += expo[index[(p, q)]]
            else:
                tot -= expo[index[(q, p)]]
        a, b, c = sites[tri[0]], sites[tri[1]], sites[tri[2]]
        areas.append(0.5 * ((b[0] - a[0]) * (c[1] - a[1]) - (c[0] - a[0]) * (b[1] - a[1])))
        sums.append(tot)
    obs["tri_sums"] = [float(x) for x in sums]
    obs["tri_areas"] = [float(x) for x in areas]
    # the terminal boundary condition the solver will impose
    solver.update_mu_boundary(0.0)
    obs["DimJ"] = {t.name: float(solver.terminal_current_densities[t.name]) for t in solver.terminal_info}
    obs["term_len"] = {t.name: float(t.length) for t in solver.terminal_info}
    return {"u": u, "obs": obs}


def exact_triangles(tdgl, args, tmp):
    """Integer triangles through the real symmetric-gauge code: A at the three edge centres (plus anchor points that put the
    bounding-box centre, i.e. the gauge origin, at o2/2), link exponent = A . (q - p); everything is exact in binary."""
    import numpy as np
    from tdgl.em import uniform_Bz_vector_potential

    out = []
    for t in args["tris"]:
        p, o2 = np.array(t["p"], dtype=float), t["o2"]
        edges = [(p[0], p[1]), (p[1], p[2]), (p[2], p[0])]
        centres = np.array([(a + b) / 2 for a, b in edges])
        # anchors: symmetric about o2/2 and wider than the triangle, so that min + ptp/2 = o2/2 exactly
        R = 64.0
        anchors = np.array([[o2[0] / 2 - R, o2[1] / 2 - R], [o2[0] / 2 + R, o2[1] / 2 + R]])
        pos = np.concatenate([centres, anchors])
        pos3 = np.concatenate([pos, np.zeros((len(pos), 1))], axis=1)
        A = np.asarray(uniform_Bz_vector_potential(pos3, 2.0).magnitude)[:3, :2]      # B = 2 T: A = (-y, x)
        e = [float(A[n] @ (b - a)) for n, (a, b) in enumerate(edges)]
        e4 = [x * 4 / 2.0 for x in e]
        out.append({"p": t["p"], "o2": o2, "e4": [int(x) if float(x).is_integer() else None for x in e4], "raw": e4})
    return out


# ------------------------------------------------------------------------------------ full runs


def run_twin(tdgl, args, tmp):
    """One real solve of the physical problem stated in unit system u."""
    import h5py
    import numpy as np

    u = args["u"]
    ln, fu, cu = unit_names(u)
    kind = args.get("kind", "bar")
    z0form = args.get("z0form")          # the film lies in the plane z = Z0_UM (given to the package in this form); None: z = 0
    flat_equiv = bool(args.get("flat_equiv"))   # the equivalent problem in the plane z = 0: uniform field B(Z0), outputs Z0 lower
    if z0form:
        dev = lifted_device(tdgl, kind, u, z0form)
    else:
        dev = edited_device(tdgl, kind, u)[0] if args.get("layer_edit") else twin_device(tdgl, kind, u)
    z0_um = Z0_UM if z0form else 0.0
    nums = numbers(u)
    work = tempfile.mkdtemp(prefix="units", dir=tmp)
    opt = tdgl.SolverOptions(solve_time=args["solve_time"], dt_init=args["dt"], dt_max=args.get("dt_max", 0.1), adaptive=args.get("adaptive", False),
                             adaptive_window=3, save_every=args.get("k", 4), progress_interval=10 ** 9, pause_on_interrupt=False,
                             output_file=os.path.join(work, "out.h5"), include_screening=args.get("screening", False),
                             screening_tolerance=args.get("screening_tol", 1e-6), max_iterations_per_step=2000,
                             field_units=fu, current_units=cu)
    cur = nums["I"] * args.get("Ifactor", 1.0)
    drive = dict(applied_vector_potential=nums["B"] * args.get("Bfactor", 1.0), terminal_currents={"source": cur, "drain": -cur})
    if args.get("epsilon"):
        drive["disorder_epsilon"] = make_epsilon(10.0 ** (-6 - u[0]), args["epsilon"])
    B_of_z = None
    if z0form:
        drive["applied_vector_potential"] = tdgl.Parameter(height_dependent_field, B0=nums["B"] * args.get("Bfactor", 1.0),
                                                           zc=ZC_UM * 10.0 ** (-6 - u[0]))
        B_of_z = lambda z_m: PHYS["B"] * args.get("Bfactor", 1.0) * (1.0 + z_m / (ZC_UM * 1e-6))
    elif flat_equiv:
        drive["applied_vector_potential"] = nums["B"] * args.get("Bfactor", 1.0) * (1.0 + Z0_UM / ZC_UM)
    try:
        sol = tdgl.solve(dev, opt, **drive)
    except Exception as e:        # recorded: whether a run raises must not depend on the unit system
        return {"u": u, "error": f"{type(e).__name__}: {e}"}
    frames = []
    # the mesh sites nearest to the probe points, found by the harness: argmin | xi * sites - probe | in length_units
    probe_idx = None
    if dev.probe_points is not None and len(dev.probe_points) == 2:
        xy = dev.coherence_length.magnitude * np.asarray(dev.mesh.sites)
        probe_idx = [int(np.argmin(np.sum((xy - np.asarray(p)[None, :]) ** 2, axis=1))) for p in dev.probe_points]
    with h5py.File(sol.path, "r") as f:
        for key in sorted(f["data"], key=int):
            g = f["data"][key]
            mu = np.array(g["mu"])
            fr = {"step": int(g.attrs["step"]), "abs_psi": np.abs(np.array(g["psi"])).tolist(),
                  "Js": np.array(g["supercurrent"]).tolist(), "Jn": np.array(g["normal_current"]).tolist(),
                  "dmu": (mu - mu[0]).tolist()}
            if "epsilon" in g:
                fr["epsilon"] = np.array(g["epsilon"]).tolist()
            if "running_state" in g and "dt" in g["running_state"]:
                fr["nrec"] = int(np.count_nonzero(np.atleast_1d(np.array(g["running_state"]["dt"])) > 0))
                if "mu" in g["running_state"] and fr["nrec"] > 0 and probe_idx is not None:
                    # per-step probe records: voltage between the two probes, and their phase difference (gauge invariant)
                    rmu = np.array(g["running_state"]["mu"]).reshape(2, -1)[:, : fr["nrec"]]
                    rth = np.array(g["running_state"]["theta"]).reshape(2, -1)[:, : fr["nrec"]]
                    fr["probe_voltage_records"] = (rmu[0] - rmu[1]).tolist()
                    fr["probe_phase_records"] = np.concatenate([np.cos(rth[0] - rth[1]), np.sin(rth[0] - rth[1])]).tolist()
                    # the same two numbers from the frame's own fields at the sites the HARNESS finds for the probe points
                    psi = np.array(g["psi"])
                    fr["probe_voltage_frame"] = [float(mu[probe_idx[0]] - mu[probe_idx[1]])]
                    fr["probe_voltage_last_record"] = [float(rmu[0, -1] - rmu[1, -1])]
                    dth = np.angle(psi[probe_idx[0]]) - np.angle(psi[probe_idx[1]])
                    fr["probe_phase_frame"] = [float(np.cos(dth)), float(np.sin(dth))]
                    fr["probe_phase_last_record"] = [float(np.cos(rth[0, -1] - rth[1, -1])), float(np.sin(rth[0, -1] - rth[1, -1]))]
            frames.append(fr)
    # physical output in FIXED units, for a few frames
    phys = {}
    for n in sorted({0, len(frames) // 2, len(frames) - 1}):
        sol.solve_step = n
        K = sol.current_density.to("A / m").magnitude
        phys[str(frames[n]["step"])] = np.asarray(K).reshape(-1).tolist()
    # fields and potentials from the currents, at fixed PHYSICAL points, in fixed physical units (tesla, tesla * metre)
    s_len = 10.0 ** (-6 - u[0])                 # one micrometre in length_units
    pos_um = np.array(FIELD_POINTS_UM) - (np.array([[0.0, 0.0, Z0_UM]]) if flat_equiv else 0.0)
    pos = pos_um * s_len
    fields, fields_ref, fields_ref_flat = {}, {}, {}
    base_mesh = base_device(tdgl, kind).mesh          # the shared dimensionless mesh the harness handed to every twin
    for n in sorted({len(frames) // 2, len(frames) - 1}):
        sol.solve_step = n
        st = str(frames[n]["step"])
        bz = sol.field_at_position(pos, vector=False, return_sum=False)
        bv = sol.field_at_position(pos, vector=True, return_sum=False)
        ap = sol.vector_potential_at_position(pos, return_sum=False)
        fields[st] = {
            "Bz_total[T]": np.asarray(sol.field_at_position(pos, vector=False).to("T").magnitude).reshape(-1).tolist(),
            "Bvec_total[T]": np.asarray(sol.field_at_position(pos, vector=True).to("T").magnitude).reshape(-1).tolist(),
            "Bz_super[T]": np.asarray(bz.supercurrent.to("T").magnitude).reshape(-1).tolist(),
            "Bvec_normal[T]": np.asarray(bv.normal_current.to("T").magnitude).reshape(-1).tolist(),
            "A_total[T*m]": np.asarray(sol.vector_potential_at_position(pos).to("T * m").magnitude).reshape(-1).tolist(),
            "A_applied[T*m]": np.asarray(ap["applied"].to("T * m").magnitude).reshape(-1).tolist(),
            "A_super[T*m]": np.asarray(ap["supercurrent_density"].to("T * m").magnitude).reshape(-1).tolist(),
            "A_normal[T*m]": np.asarray(ap["normal_current_density"].to("T * m").magnitude).reshape(-1).tolist(),
            # the same through `units=` / with_units=False
            "Bvec_total[T] via units=": np.asarray(sol.field_at_position(pos, vector=True, units="T", with_units=False)).reshape(-1).tolist(),
            "A_total[T*m] via units=": np.asarray(sol.vector_potential_at_position(pos, units="T * m", with_units=False)).reshape(-1).tolist(),
        }
        if flat_equiv:       # another applied potential by construction: only what the currents produce is comparable
            fields[st] = {k_: v_ for k_, v_ in fields[st].items() if not k_.startswith(("A_total", "A_applied"))}
        # the same from the sheet currents by the harness' own SI sums (sheet in the plane the harness asked for)
        Ks = np.asarray(sol.supercurrent_density.to("A / m").magnitude, dtype=float)
        Kn = np.asarray(sol.normal_current_density.to("A / m").magnitude, dtype=float)
        fields_ref[st] = si_sums(np, base_mesh.sites, base_mesh.areas, z0_um, Ks, Kn, pos_um, B_of_z)
        if z0form:           # (vacuity guard of the caller: the observation points are sensitive to the height of the sheet)
            fields_ref_flat[st] = si_sums(np, base_mesh.sites, base_mesh.areas, 0.0, Ks, Kn, pos_um, B_of_z)
    res = {"u": u, "frames": frames, "K_A_per_m": phys, "fields": fields, "fields_ref": fields_ref, "nsites": len(dev.mesh.sites),
           "z0_um": z0_um, "z0form": z0form, "mesh_area_um2": float(np.sum(base_mesh.areas)) * (PHYS["XI"] * 1e6) ** 2}
    if z0form:
        res["fields_ref_flat"] = fields_ref_flat
    if args.get("post"):
        sol.solve_step = len(frames) - 1
        res["post"], res["post_outcomes"] = post_processing(sol, u, np, args.get("variant", 0))
    if args.get("reload"):
        # the solution written by the solver, read back: same physical outputs; and it must be usable as a seed
        last = str(frames[-1]["step"])
        try:
            re = tdgl.Solution.from_hdf5(sol.path)
            rd = re.device
            res["reloaded"] = {
                "K": np.asarray(re.current_density.to("A / m").magnitude).reshape(-1).tolist(),
                "fields": {
                    "Bz_total[T]": np.asarray(re.field_at_position(pos, vector=False).to("T").magnitude).reshape(-1).tolist(),
                    "A_total[T*m]": np.asarray(re.vector_potential_at_position(pos).to("T * m").magnitude).reshape(-1).tolist()},
                "device": [float(rd.coherence_length.to("m").magnitude), float(rd.london_lambda.to("m").magnitude),
                           float(rd.K0.to("A / m").magnitude), float(rd.Bc2.to("T").magnitude)],
                "step": last}
            res["device"] = [float(dev.coherence_length.to("m").magnitude), float(dev.london_lambda.to("m").magnitude),
                             float(dev.K0.to("A / m").magnitude), float(dev.Bc2.to("T").magnitude)]
        except Exception as e:
            res["reloaded"] = {"error": f"{type(e).__name__}: {e}"[:300]}
            re = None
        try:
            opt2 = tdgl.SolverOptions(solve_time=4 * args["dt"] - args["dt"] / 2, dt_init=args["dt"], adaptive=False, save_every=2, progress_interval=10 ** 9,
                                      pause_on_interrupt=False, output_file=os.path.join(work, "cont.h5"), field_units=fu, current_units=cu)
            sol2 = tdgl.solve(dev, opt2, seed_solution=re, **drive)
            res["continuation"] = {"abs_psi": np.abs(sol2.tdgl_data.psi).tolist(), "K": np.asarray(sol2.current_density.to("A / m").magnitude).reshape(-1).tolist()}
        except Exception as e:
            res["continuation"] = {"error": f"{type(e).__name__}: {e}"[:300]}
    return res


def make_epsilon(s_len, form):
    """The same PHYSICAL disorder landscape (a dip of width 0.7 um at (0.8 um, -0.3 um) that grows in time) as a function of the
    position in length_units (s_len = one micrometre in length_units); point-by-point (r is one position, keyword-only t) or
    vectorized (r is an (n, 2) array, vectorized=True)."""
    import numpy as np

    if form == "pointwise":
        def epsilon(r, *, t):
            x, y = r[0] / s_len, r[1] / s_len
            return 1.0 - 0.6 * np.exp(-((x - 0.8) ** 2 + (y + 0.3) ** 2) / (2 * 0.7 ** 2)) * min(1.0, t / 0.2)
        return epsilon

    def epsilon(r, *, t, vectorized=True):
        x, y = r[:, 0] / s_len, r[:, 1] / s_len
        return 1.0 - 0.6 * np.exp(-((x - 0.8) ** 2 + (y + 0.3) ** 2) / (2 * 0.7 ** 2)) * min(1.0, t / 0.2)
    return epsilon


# ------------------------------------------------------------------------------------ history on a shared options object


def _phys_outputs(sol, u, np):
    """Physical outputs of a Solution that was solved in unit system u, brought to SI by the harness.  The `with_units=False`
    numbers are, by the API, in the units the solution was SOLVED in, and are converted with exactly those."""
    LU, FU, CU = 10.0 ** u[0], 10.0 ** u[1], 10.0 ** u[2]
    pos = np.array(FIELD_POINTS_UM) * (1e-6 / LU)
    inside = np.array([[0.5, 0.3], [-1.0, 0.5], [1.5, -0.7]]) * (1e-6 / LU)
    fl = lambda a: np.asarray(a, dtype=float).reshape(-1).tolist()
    o = {
        "A_total[T*m]": fl(sol.vector_potential_at_position(pos).to("T * m").magnitude),
        "A_total[T*m] from with_units=False": fl(np.asarray(sol.vector_potential_at_position(pos, with_units=False)) * FU * LU),
        "A_applied[T*m]": fl(sol.vector_potential_at_position(pos, return_sum=False)["applied"].to("T * m").magnitude),
        "Bz[T]": fl(sol.field_at_position(pos, vector=False).to("T").magnitude),
        "Bz[T] from with_units=False": fl(np.asarray(sol.field_at_position(pos, vector=False, with_units=False)) * FU),
        "Bvec[T]": fl(sol.field_at_position(pos, vector=True).to("T").magnitude),
        "K[A/m]": fl(sol.current_density.to("A / m").magnitude),
        "K_interp[A/m]": fl(sol.interp_current_density(inside, with_units=True).to("A / m").magnitude),
        "K_interp[A/m] from with_units=False": fl(np.asarray(sol.interp_current_density(inside, with_units=False)) * CU / LU),
    }
    labels = [FLD_EXP.get(str(sol.field_units), 99), CUR_EXP.get(str(sol.current_units), 99)]
    return o, labels


FLD_EXP = {v: k for k, v in FLD.items()}
CUR_EXP = {v: k for k, v in CUR.items()}


def history_twin(tdgl, args, tmp):
    """ONE SolverOptions object used for two solves with its unit fields re-assigned in between (um/mT/uA, then nm/uT/nA on the shared
    mesh); the first solution is observed before and after the edit (also through to_hdf5 + reload), the second once."""
    import h5py
    import numpy as np

    u1, u2 = args.get("u1", [-6, -3, -6]), args.get("u2", [-9, -6, -9])
    kind = args.get("kind", "bar")
    work = tempfile.mkdtemp(prefix="hist", dir=tmp)
    dt = args.get("dt", 2.0 ** -6)
    ln, fu, cu = unit_names(u1)
    opt = tdgl.SolverOptions(solve_time=args.get("steps", 12) * dt - dt / 2, dt_init=dt, adaptive=False, save_every=4, progress_interval=10 ** 9,
                             pause_on_interrupt=False, output_file=os.path.join(work, "first.h5"), field_units=fu, current_units=cu)
    n1 = numbers(u1)
    sol1 = tdgl.solve(twin_device(tdgl, kind, u1), opt, applied_vector_potential=n1["B"], terminal_currents={"source": n1["I"], "drain": -n1["I"]})
    runs, labels = {}, {}
    runs["first solution, before"], labels["first solution, before"] = _phys_outputs(sol1, u1, np)
    # the SAME options object, re-assigned
    ln2, fu2, cu2 = unit_names(u2)
    opt.field_units, opt.current_units, opt.output_file = fu2, cu2, os.path.join(work, "second.h5")
    n2 = numbers(u2)
    sol2 = tdgl.solve(twin_device(tdgl, kind, u2), opt, applied_vector_potential=n2["B"], terminal_currents={"source": n2["I"], "drain": -n2["I"]})
    runs["second solution"], lab2 = _phys_outputs(sol2, u2, np)
    runs["first solution, after the options object was re-used"], labels["first solution, after the options object was re-used"] = _phys_outputs(sol1, u1, np)
    saved = os.path.join(work, "first_saved.h5")
    sol1.to_hdf5(saved)
    with h5py.File(saved, "r") as f:
        g = f["solution"]
        labels["first solution, attributes written by to_hdf5"] = [FLD_EXP.get(str(g.attrs.get("field_units")), 99), CUR_EXP.get(str(g.attrs.get("current_units")), 99)]
    re1 = tdgl.Solution.from_hdf5(saved)
    runs["first solution, saved after the edit and reloaded"], labels["first solution, saved after the edit and reloaded"] = _phys_outputs(re1, u1, np)
    return {"runs": runs, "first_labels": labels, "second_labels": lab2, "expected_first": [u1[1], u1[2]], "expected_second": [u2[1], u2[2]]}


# ------------------------------------------------------------------------------------ post-processing accessors, one Solution, many calls

J_UNITS = {"A/m": 1.0, "uA/um": 1.0, "mA/um": 1e3, "nA/um": 1e-3, "A/um": 1e6, "mA/mm": 1.0, "uA/nm": 1e3}
I_UNITS = {"A": 1.0, "uA": 1e-6, "mA": 1e-3, "nA": 1e-9}
FLUX_UNITS = {"Phi_0": None, "mT * um**2": 1e-3 * 1e-12, "uT * um**2": 1e-6 * 1e-12, "T * m**2": 1.0}


def post_processing(sol, u, np, variant):
    """The accessors with explicit units, called REPEATEDLY on one Solution with different units / with_units, in an order that
    depends on `variant`; every result is brought to SI by the harness (the factor of the units that were asked for), so all calls
    of one quantity must give the same numbers — on this Solution and in every unit system.
    -> (observations [{key, call, v}], outcomes [{key, call, raised}])"""
    from tdgl.em import ureg
    LU, CU = 10.0 ** u[0], 10.0 ** u[2]
    s_len = 1e-6 / LU
    inside = np.array([[0.5, 0.3], [-1.0, 0.5], [1.5, -0.7], [-1.9, -1.0]]) * s_len
    path = np.stack([np.zeros(15) + 0.4 * s_len, np.linspace(-1.4, 1.4, 15) * s_len], axis=1)      # across the bar, x = 0.4 um
    poly = np.array([[-1.0, -0.8], [1.0, -0.8], [1.0, 0.8], [-1.0, 0.8], [-1.0, -0.8]]) * s_len
    phi0 = ureg("Phi_0").to_base_units().magnitude
    obs, outcomes = [], []
    mag = lambda q: np.asarray(q.magnitude if hasattr(q, "magnitude") else q, dtype=float)

    def rot(xs, k):
        xs = list(xs)
        k %= len(xs)
        return xs[k:] + xs[:k]

    def attempt(key, call, fn):
        try:
            v = np.nan_to_num(np.asarray(fn(), dtype=float)).reshape(-1).tolist()
            obs.append({"key": key, "call": call, "v": v})
            outcomes.append({"key": key, "call": call, "raised": 0})
        except Exception as e:
            outcomes.append({"key": key, "call": call, "raised": 1, "error": f"{type(e).__name__}: {e}"[:160]})

    n = 0
    junits = rot([None] + list(J_UNITS), variant) + [None, "A/m"]
    for dataset in (None, "supercurrent", "normal_current"):
        for method in ("linear", "cubic"):
            for un in rot(junits, n):
                n += 1
                w = bool(n % 2)
                f = (CU / LU) if un is None else J_UNITS[un]
                attempt(f"post/interp_current_density({dataset}, {method})[A/m]", f"call {n}: units={un} with_units={w}",
                        lambda: mag(sol.interp_current_density(inside, dataset=dataset, method=method, units=un, with_units=w)) * f)
    for method in ("linear", "cubic"):
        for rep_ in range(2):
            attempt(f"post/|interp_order_parameter|({method})", f"call {rep_ + 1}", lambda: np.abs(sol.interp_order_parameter(inside, method=method)))
    for un in rot(junits, variant + 3)[:5]:
        n += 1
        w = bool(n % 2)
        f = (CU / LU) if un is None else J_UNITS[un]
        attempt("post/grid_current_density(7x5, linear)[A/m]", f"call {n}: units={un} with_units={w}",
                lambda: mag(sol.grid_current_density(grid_shape=(7, 5), method="linear", units=un, with_units=w)[2]) * f)
    for un in rot([None] + list(I_UNITS), variant + 1) + [None]:
        n += 1
        w = bool(n % 2)
        f = CU if un is None else I_UNITS[un]
        attempt("post/current_through_path[A]", f"call {n}: units={un} with_units={w}",
                lambda: mag(sol.current_through_path(path, units=un, with_units=w)) * f)
    for un in rot(list(FLUX_UNITS), variant):
        n += 1
        w = bool(n % 2)
        f = phi0 if FLUX_UNITS[un] is None else FLUX_UNITS[un]
        attempt("post/polygon_fluxoid (flux, supercurrent part)[Wb]", f"call {n}: units={un} with_units={w}",
                lambda: np.array([mag(x) for x in sol.polygon_fluxoid(poly, units=un, with_units=w)]) * f)
    return obs, outcomes


# ------------------------------------------------------------------------------------ the gauge of the applied potential over many positions


def gauge_blocks(tdgl, args, tmp):
    """The applied potential of a uniform field, evaluated through tdgl.Parameter at N harness-chosen positions: A - B/2 (-y, x) must be
    ONE constant vector over all positions, and the circulation round every harness triangle (i, i+1, i+2) must be B * area
    (trapezoid rule, exact for an affine A).  Absolute reference: B and the positions are the harness' own numbers."""
    import numpy as np
    from tdgl.sources import ConstantField, LinearRamp

    B = 0.4                                              # mT, positions in um
    out = []
    for N in args["sizes"]:
        rng = np.random.RandomState(N)
        x, y, z = rng.uniform(-2.5, 2.5, N), rng.uniform(-1.5, 1.5, N), np.zeros(N)
        forms = {"ConstantField": (ConstantField(B, field_units="mT", length_units="um"), {}, 1.0),
                 "ConstantField * LinearRamp at t = 0.25": (ConstantField(B, field_units="mT", length_units="um") * LinearRamp(tmin=0.0, tmax=0.5), dict(t=0.25), 0.5),
                 "2 * ConstantField(B/2) (a CompositeParameter with a number)": (ConstantField(B / 2, field_units="mT", length_units="um") * 2, {}, 1.0)}
        for name, (P, kw, f) in forms.items():
            try:
                A = np.asarray(P(x, y, z, **kw), dtype=float)[:, :2]
                expected = 0.5 * f * B * np.stack([-y, x], axis=1)
                d = A - expected
                r_const = float(np.abs(d - d[0]).max() / (0.5 * f * B * 2.5))
                i = np.arange(N - 2)
                p, q, r = (np.stack([x[i + k], y[i + k]], axis=1) for k in range(3))
                Ap, Aq, Ar = A[i], A[i + 1], A[i + 2]
                circ = (np.sum((Ap + Aq) / 2 * (q - p), axis=1) + np.sum((Aq + Ar) / 2 * (r - q), axis=1) + np.sum((Ar + Ap) / 2 * (p - r), axis=1))
                area = 0.5 * ((q[:, 0] - p[:, 0]) * (r[:, 1] - p[:, 1]) - (r[:, 0] - p[:, 0]) * (q[:, 1] - p[:, 1]))
                r_flux = float(np.abs(circ - f * B * area).max() / (f * B * np.abs(area).max()))
                out.append({"N": int(N), "form": name, "ntri": int(N - 2), "r_const": r_const, "r_flux": r_flux})
            except Exception as e:
                out.append({"N": int(N), "form": name, "ntri": int(N - 2), "r_const": 1.0, "r_flux": 1.0, "raised": f"{type(e).__name__}: {e}"[:200]})
    return out
