"""Natural runs: the REAL tdgl.solve with the REAL update function, observed through
run-time wrappers and abstracted into TdglRunTrace traces (code -> spec direction).

Abstraction (DESIGN.md 4.3):
  * every accepted update is one tick; time t maps to the step count j with t == cum[j]
    (cum = the same floating-point running sum the loop computes); no match -> BOT
  * solve time maps to the first j with cum[j] >= solve_time (same for thermalisation)
  * content id of a frame = n iff its datasets hash equals the state returned by update n
    (0 = the initial state handed to the first update)
  * a per-step record maps to uid n iff all its columns equal what update n reported
    (dt returned, mu / phase at the probe points of the returned state, iteration count)
"""
from __future__ import annotations

import hashlib
import os
import shutil
import tempfile
from pathlib import Path

import numpy as np

from . import devices
from .runsim import BOT, NAMES, fs_state, FOREIGN_BYTES, FILEMAP  # noqa

DATASETS = ["psi", "mu", "supercurrent", "normal_current", "induced_vector_potential"]


def state_hash(d):
    h = hashlib.sha256()
    for name in DATASETS:
        a = np.ascontiguousarray(np.asarray(d[name]))
        h.update(name.encode())
        h.update(str(a.dtype).encode())
        h.update(a.tobytes())
    return h.hexdigest()


def c05_matrix(ctx):
    """Configurations of natural runs for C05 (and reused by C11/C15)."""
    base = [
        dict(dev="bar", k=3, steps=10, adaptive=False, dt=2.0 ** -6, probes=2, current=2.0, field=0.2),
        dict(dev="bar", k=4, steps=9, adaptive=True, dt=2.0 ** -5, dt_max=0.5, probes=3, current=8.0, field=0.5, skip=4),
        dict(dev="barhole", k=2, steps=6, adaptive=False, dt=2.0 ** -6, probes=2, current=1.0, field=0.3, screening=True),
        dict(dev="film", k=1, steps=5, adaptive=False, dt=2.0 ** -6, probes=0, current=0.0, field=0.4),
        dict(dev="bar", k=50, steps=7, adaptive=True, dt=2.0 ** -6, dt_max=0.1, probes=2, current=3.0, field=0.0),
        dict(dev="bar", k=5, steps=15, adaptive=True, dt=0.25, dt_max=2.0, probes=2, current=20.0, field=1.0, window=2,
             retries=True),
        # interplay: thermalisation + time-dependent drives + screening + probes + a save interval that does not divide the run
        dict(dev="bar", k=4, steps=9, adaptive=True, dt=2.0 ** -6, dt_max=0.1, probes=3, current=4.0, current_ramp=0.08, field=0.4,
             field_ramp=0.1, skip=3, screening=True),
        # numerical edge of the stop rule: solve/skip times that are exact decimal multiples of a non-dyadic step
        dict(dev="film", k=3, steps=10, adaptive=False, dt=0.01, probes=0, current=0.0, field=0.2, exact_times=True),
        dict(dev="bar", k=4, steps=8, adaptive=False, dt=0.011, probes=2, current=1.0, field=0.1, exact_times=True, skip=7),
        dict(dev="film", k=2, steps=9, adaptive=False, dt=0.025, probes=0, current=0.0, field=0.2, exact_times=True),
        dict(dev="film", k=5, steps=11, adaptive=False, dt=0.02, probes=0, current=0.0, field=0.2, exact_times=True),
        # probe points listed in an order that is not the order of their mesh sites
        dict(dev="bar", k=2, steps=7, adaptive=False, dt=2.0 ** -6, probes=2, current=2.0, field=0.2, probe_order="reversed"),
        dict(dev="bar", k=3, steps=8, adaptive=True, dt=2.0 ** -6, dt_max=0.1, probes=3, current=3.0, field=0.3, probe_order="rotated"),
        # fixed step and a save interval at least as long as the run (the default save_every=100 on a short run), with a
        # solve time that is not a whole number of steps: frames at 0 and at the final step only
        dict(dev="film", k=100, steps=6, adaptive=False, dt=0.01, probes=0, current=0.0, field=0.2),
        dict(dev="bar", k=7, steps=7, adaptive=False, dt=0.01, probes=2, current=1.0, field=0.1),
        dict(dev="bar", k=9, steps=8, adaptive=False, dt=0.011, probes=3, current=1.0, field=0.1, exact_times=True),
        # history: second solve() on the same TDGLSolver object (fixed and adaptive step)
        dict(dev="bar", k=3, steps=8, adaptive=False, dt=2.0 ** -6, probes=2, current=2.0, field=0.2, second_solve=True),
        dict(dev="bar", k=2, steps=7, adaptive=True, dt=2.0 ** -6, dt_max=0.1, probes=3, current=3.0, field=0.3, skip=3, second_solve=True),
    ]
    if ctx.quick:
        return base
    out = list(base)
    for k in (1, 2, 3, 5, 7, 11):
        for steps in (0, 1, 4, 12, 25):
            out.append(dict(dev="bar", k=k, steps=steps, adaptive=(k % 2 == 0), dt=2.0 ** -6, dt_max=0.2, probes=[0, 2, 3][k % 3],
                            current=4.0, field=0.3, skip=(3 if steps % 2 else 0), screening=(k == 5 and steps <= 4)))
    return out


def natural_run(tdgl, p, base_tmp=None):
    from tdgl.solver import runner as runner_mod
    from tdgl.solver.solver import TDGLSolver

    k = p["k"]
    out_mode = p.get("out", "temp")
    foreign = list(p.get("foreign", []))
    sandbox = Path(tempfile.mkdtemp(prefix="nat", dir=base_tmp))
    tempd = sandbox / "tmpd"
    tempd.mkdir()
    for n in foreign:
        fname = [f for f, m in FILEMAP.items() if m == n][0]
        (sandbox / fname).write_bytes(FOREIGN_BYTES)
    dev = devices.make(tdgl, p["dev"], probes=p.get("probes", 2))
    if p.get("probe_order") and dev.probe_points is not None:
        # the same device and mesh with the probe points listed in another order (reversed / rotated): row p of the
        # per-step probe records belongs to the p-th probe point the user listed, whatever the mesh numbering is
        pts = [tuple(map(float, q)) for q in np.asarray(dev.probe_points)]
        pts = pts[::-1] if p["probe_order"] == "reversed" else pts[1:] + pts[:1]
        d2 = tdgl.Device(dev.name, layer=dev.layer, film=dev.film, holes=list(dev.holes), terminals=list(dev.terminals),
                         probe_points=pts, length_units=dev.length_units)
        d2.mesh = dev.mesh
        dev = d2
    dt = p["dt"]
    # solve_time is placed strictly between two step times so the abstraction of the stop
    # rule cannot depend on rounding: steps*dt - dt/2 for fixed steps, a plain value otherwise
    solve_time = p.get("solve_time", max(0.0, p["steps"] * dt - (dt / 2 if p["steps"] else 0)))
    skip_time = p.get("skip", 0) * dt - (dt / 2 if p.get("skip", 0) else 0)
    if p.get("exact_times"):
        # the requested times are exact multiples of a NON-dyadic step: the floating-point running sum of the
        # steps may fall short of them by rounding (ten steps of 0.01 give 0.09999999999999999 < 0.1); the
        # property speaks about the time the run actually accumulates, so the abstraction of the stop rule
        # (first step count whose accumulated float time >= solve_time) decides, not decimal arithmetic
        solve_time = p["steps"] * dt
        skip_time = p.get("skip", 0) * dt
    opts = tdgl.SolverOptions(
        solve_time=solve_time, skip_time=skip_time, dt_init=dt, dt_max=p.get("dt_max", 0.1),
        adaptive=p.get("adaptive", False), adaptive_window=p.get("window", 3), save_every=k,
        progress_interval=p.get("progress", 10 ** 9), pause_on_interrupt=False,
        output_file=("out.h5" if out_mode == "path" else None), include_screening=p.get("screening", False),
        field_units="mT", current_units="uA", max_solve_retries=p.get("max_retries", 10),
        terminal_psi=p.get("terminal_psi", 0.0), screening_tolerance=p.get("screening_tol", 1e-3),
    )
    currents = devices.balanced_currents(p["dev"], p.get("current", 0.0)) if p.get("current") else None
    if currents is not None and p.get("current_ramp"):
        base, T = dict(currents), float(p["current_ramp"])
        currents = lambda t, base=base, T=T: {name: val * min(1.0, t / T) for name, val in base.items()}   # noqa: E731
    field = p.get("field", 0.0)
    if p.get("field_ramp"):
        from tdgl.sources import ConstantField, LinearRamp
        field = ConstantField(field, field_units="mT", length_units="um") * LinearRamp(tmin=0, tmax=float(p["field_ramp"]))
    events = []
    st = {"calls": 0, "stage": "thermal" if skip_time > 0 else "sim", "sim_n": 0, "th_n": 0, "applied": 0}
    hashes = {}          # state hash -> content id
    recs = {"sim": [], "thermal": []}   # per accepted update: dict of reported columns
    cum = {"sim": [0.0], "thermal": [0.0]}
    fault = p.get("fault")   # optional: dict(kind, where, stage, i, at) as in TdglRun.flog
    fired = {"done": False}
    DH = runner_mod.DataHandler
    orig_enter, orig_exit, orig_save = DH.__enter__, DH.__exit__, DH.save_time_step
    orig_update = TDGLSolver.update
    # independent observation of the step the order parameter is really advanced with: every evaluation of the
    # implicit update (static method) with its dt and whether it was answered; the LAST answered evaluation inside
    # one update() call is the step taken (a refused evaluation is retried with a smaller dt; with screening every
    # iteration evaluates again).  What update() REPORTS as its step must be that value.
    orig_sfps = TDGLSolver.__dict__["solve_for_psi_squared"]
    evals = []

    class _InterruptingOperator:
        """Stands in for the covariant Laplacian in ONE implicit evaluation: the product with psi raises
        KeyboardInterrupt — a Ctrl-C that lands in the middle of the solver's innermost computation."""

        def __init__(self, inner):
            self._inner = inner

        def __matmul__(self, other):
            raise KeyboardInterrupt()

        def __getattr__(self, name):
            return getattr(self._inner, name)

    def w_sfps(*args, **kw2):
        if (fault and not fired["done"] and fault["where"] == "update" and fault.get("at") == "inside"
                and st.get("cur_i") == fault["i"] and st["stage"] == fault["stage"] and "psi_laplacian" in kw2):
            fired["done"] = True
            events.append({"ev": "update", "i": fault["i"], "outcome": fault["kind"], "at": "pre"})
            st["inside_fault_at"] = fault["i"]
            kw2 = dict(kw2, psi_laplacian=_InterruptingOperator(kw2["psi_laplacian"]))
        r = orig_sfps.__func__(*args, **kw2)
        evals.append((float(kw2["dt"]) if "dt" in kw2 else None, r is not None))
        return r
    # the mesh site of every probe point, in the order the user listed them, from the numbers passed in (not from
    # Device.probe_point_indices): nearest site to the probe coordinate in units of the requested coherence length
    if dev.probe_points is None:
        probe_idx = None
    else:
        _xi = float(dev.layer.coherence_length)
        _sites = np.asarray(dev.mesh.sites, dtype=float)
        probe_idx = [int(np.argmin(((_sites - np.asarray(q, dtype=float) / _xi) ** 2).sum(axis=1))) for q in np.asarray(dev.probe_points)]

    def t_index(t, stage):
        for j, c in enumerate(cum[stage]):
            if c == t:
                return j
        return BOT

    def match_uid(cols, stage, after):
        """uid of the record with these columns; smallest candidate > `after`."""
        for n, r in enumerate(recs[stage], start=1):
            if n <= after:
                continue
            if all(np.array_equal(np.asarray(cols[c]).reshape(-1), np.asarray(r[c]).reshape(-1)) for c in r) and set(cols) == set(r):
                return n
        return None

    def abstract_rs_nat(getcol, names, stage, cursor):
        # identical records (e.g. equal fixed steps and no probes) are told apart by order only:
        # `cursor` carries the last uid matched so far in this sequence of frames
        out, last = [], cursor["last"]
        dtv = np.atleast_1d(np.asarray(getcol("dt"))).reshape(-1)
        if dtv.size != k:
            return [BOT] * max(1, dtv.size)
        cols = {nm: np.atleast_1d(np.asarray(getcol(nm))) for nm in names}
        for j in range(k):
            c = {}
            for nm, a in cols.items():
                a2 = a.reshape(-1, k) if a.size % k == 0 else None
                if a2 is None:
                    return [BOT] * k
                c[nm] = a2[:, j]
            if all(np.all(v == 0) for v in c.values()):
                out.append(0)
                continue
            n = match_uid(c, stage, last)
            if n is None:
                out.append(BOT)
            else:
                last = n
                out.append(n if stage == "sim" else -n)
        cursor["last"] = last
        return out

    def w_update(self, state, running_state, dt_in, **kw):
        i = int(state["step"])
        if st["calls"] > 0 and i == 0 and st["stage"] == "thermal" and float(state["time"]) == 0.0 and st["th_n"] > 0:
            st["stage"] = "sim"
        stage = st["stage"]
        st["cur_i"] = i
        if st["calls"] == 0:
            hashes[state_hash(kw)] = 0
        st["calls"] += 1
        if fault and not fired["done"] and fault["where"] == "update" and fault["i"] == i and fault["stage"] == stage and fault["at"] == "pre":
            fired["done"] = True
            if fault["at"] == "pre":
                events.append({"ev": "update", "i": i, "outcome": fault["kind"], "at": "pre"})
                raise (KeyboardInterrupt() if fault["kind"] == "KI" else RuntimeError("injected fault"))
        del evals[:]
        try:
            res = orig_update(self, state, running_state, dt_in, **kw)
        except BaseException as e:
            if not (isinstance(e, KeyboardInterrupt) and st.pop("inside_fault_at", None) == i):    # (already logged where it was raised)
                events.append({"ev": "update", "i": i, "outcome": "Exc:" + type(e).__name__, "at": "pre"})
            raise
        used = float(res[0])
        if fault and not fired["done"] and fault["where"] == "update" and fault["i"] == i and fault["stage"] == stage and fault["at"] == "post":
            # the interrupt / error arrives at the very end of the REAL update (all its work done, its record appended,
            # its scratch buffers written) but before the runner takes the new values: the step does not count, and
            # nothing of it may show in what is saved afterwards
            fired["done"] = True
            events.append({"ev": "update", "i": i, "outcome": fault["kind"], "at": "post"})
            raise (KeyboardInterrupt() if fault["kind"] == "KI" else RuntimeError("injected fault"))
        answered = [d for d, ok in evals if ok and d is not None]
        st["retries"] = st.get("retries", 0) + sum(1 for d, ok in evals if not ok)
        st["evals"] = st.get("evals", 0) + len(evals)
        step_taken_ok = (not evals) or (bool(answered) and answered[-1] == used)
        rec = {"dt": np.array([used])}
        if probe_idx is not None:
            rec["mu"] = np.asarray(res.mu)[probe_idx]
            rec["theta"] = np.angle(np.asarray(res.psi)[probe_idx])
        if opts.include_screening:
            # the iteration count is internal; take what was appended, but require an integer >= 1
            v = running_state.values["screening_iterations"][:, running_state.step]
            rec["screening_iterations"] = np.array(v, dtype=float)
            if not (v.size == 1 and v[0] >= 1 and v[0] == int(v[0])):
                rec["screening_iterations"] = np.array([np.nan])
        # the record the update appended must be what it reported
        appended = {nm: np.array(running_state.values[nm][:, running_state.step]) for nm in running_state.values}
        ok_rec = set(appended) == set(rec) and all(np.array_equal(appended[c].reshape(-1), rec[c].reshape(-1)) for c in rec)
        key = "sim" if stage == "sim" else "thermal"
        recs[key].append(rec if ok_rec else {c: np.full_like(v, np.nan) for c, v in rec.items()})
        cum[key].append(cum[key][-1] + used)
        if stage == "sim":
            st["sim_n"] += 1
            n = st["sim_n"]
        else:
            st["th_n"] += 1
            n = -st["th_n"]
        st["applied"] += 1
        d = dict(zip(DATASETS, res[1:6]))
        hashes.setdefault(state_hash(d), st["applied"])
        events.append({"ev": "update", "i": i, "outcome": "ok", "at": "", "dt": 1 if used > 0 and ok_rec and step_taken_ok else BOT,
                       "uid": n, "content": st["applied"], "used": used})
        return res

    def w_enter(self):
        r = orig_enter(self)
        name = os.path.basename(self.output_path or "")
        serial = {"out.h5": 0, "out-1.h5": 1, "out-2.h5": 2, "out-3.h5": 3, "output.h5": 0}.get(name, BOT)
        events.append({"ev": "open", "serial": serial, "fs": fs_state(sandbox, tempd, out_mode, foreign)})
        return r

    def frame_abs(get, names_rs, has_rs, step, time):
        stage = "sim"
        fr = {"step": step, "time": t_index(time, stage)}
        try:
            fr["_hash"] = state_hash({nm: get(nm) for nm in DATASETS})
        except KeyError:
            fr["_hash"] = None
        fr["content"] = BOT
        fr["hasrs"] = has_rs
        return fr

    save_cursor = {"last": 0}

    def w_save(self, state, data, running_state):
        st["stage"] = "sim"
        i = int(state["step"])
        fr = frame_abs(lambda nm: np.asarray(data[nm]), None, running_state is not None, i, float(state["time"]))
        fr["rs"] = abstract_rs_nat(lambda nm: running_state[nm], list(running_state), "sim", save_cursor) if running_state is not None else []
        ev = dict(ev="save", **fr)
        if fault and not fired["done"] and fault["where"] in ("save", "final") and fault["i"] == i:
            fired["done"] = True
            ev.update(outcome=fault["kind"], at="pre")
            events.append(ev)
            raise (KeyboardInterrupt() if fault["kind"] == "KI" else RuntimeError("injected fault"))
        try:
            orig_save(self, state, data, running_state)
        except BaseException as e:
            ev.update(outcome="Exc:" + type(e).__name__, at="mid")
            events.append(ev)
            raise
        ev.update(outcome="ok", at="")
        events.append(ev)

    def read_disk(h5):
        frames = []
        cursor = {"last": 0}
        if "data" not in h5:
            return frames
        for n, key in enumerate(h5["data"]):
            g = h5["data"][key]
            complete = all(a in g.attrs for a in ("step", "time", "dt", "timestamp")) and all(d in g for d in DATASETS)
            if not complete:
                frames.append({"step": int(g.attrs.get("step", BOT)), "time": BOT, "content": BOT, "hasrs": False, "rs": [], "complete": False})
                continue
            has = "running_state" in g
            fr = frame_abs(lambda nm: np.array(g[nm]), None, has, int(g.attrs["step"]), float(g.attrs["time"]))
            fr["rs"] = abstract_rs_nat(lambda nm: np.array(g["running_state"][nm]), list(g["running_state"]), "sim", cursor) if has else []
            fr["complete"] = (has or fr["step"] == 0) and int(key) == n
            frames.append(fr)
        return frames

    def w_exit(self, et, ev_, tb):
        try:
            frames = read_disk(self.output_file)
        except Exception as e:
            frames = [{"step": BOT, "time": BOT, "content": BOT, "hasrs": False, "rs": [], "complete": False, "exc": repr(e)}]
        try:
            return orig_exit(self, et, ev_, tb)
        finally:
            events.append({"ev": "close", "fs": fs_state(sandbox, tempd, out_mode, foreign), "frames": frames})

    cwd = os.getcwd()
    old_tempdir = tempfile.tempdir
    result, exc_name, sol = "pending", "", None
    ltimes, luids, drange = [], [], []
    try:
        os.chdir(sandbox)
        tempfile.tempdir = str(tempd)
        DH.__enter__, DH.__exit__, DH.save_time_step = w_enter, w_exit, w_save
        TDGLSolver.update = w_update
        TDGLSolver.solve_for_psi_squared = staticmethod(w_sfps)
        try:
            solver = TDGLSolver(dev, opts, applied_vector_potential=field, terminal_currents=currents)
            if p.get("second_solve"):
                # history: the observed run is the SECOND solve() on the same solver object; the first one is
                # discarded (its output lives in its own temporary directory), all observation state is reset
                solver.solve()
                events.clear()
                hashes.clear()
                for key in ("sim", "thermal"):
                    recs[key].clear()
                    cum[key][:] = [0.0]
                st.update(calls=0, stage="thermal" if skip_time > 0 else "sim", sim_n=0, th_n=0, applied=0)
                save_cursor["last"] = 0
            sol = solver.solve()
            result = "none" if sol is None else "solution"
        except KeyboardInterrupt:
            result, exc_name = "raised", "KeyboardInterrupt"
        except Exception as e:
            result, exc_name = "raised", type(e).__name__ + ": " + str(e)[:300]
        finally:
            DH.__enter__, DH.__exit__, DH.save_time_step = orig_enter, orig_exit, orig_save
            TDGLSolver.update = orig_update
            TDGLSolver.solve_for_psi_squared = orig_sfps
        if sol is not None:
            try:
                ltimes = [t_index(float(x), "sim") for x in np.atleast_1d(sol.times)]
                dyn = sol.dynamics
                last = 0
                ndt = len(np.atleast_1d(dyn.dt))
                for j in range(ndt):
                    c = {"dt": np.atleast_1d(dyn.dt)[j:j + 1]}
                    if dyn.mu is not None:
                        c["mu"] = np.asarray(dyn.mu).reshape(-1, ndt)[:, j]
                    if dyn.theta is not None:
                        c["theta"] = np.asarray(dyn.theta).reshape(-1, ndt)[:, j]
                    if dyn.screening_iterations is not None:
                        c["screening_iterations"] = np.asarray(dyn.screening_iterations, dtype=float).reshape(-1)[j:j + 1]
                    n = match_uid(c, "sim", last)
                    if n is None:
                        luids.append(BOT)
                    else:
                        last = n
                        luids.append(n)
                drange = [int(sol.data_range[0]), int(sol.data_range[1])]
            except Exception as e:
                result, exc_name = "raised", "on-load " + type(e).__name__ + ": " + str(e)[:200]
        events.append({"ev": "return", "result": result, "exc": exc_name, "ltimes": ltimes, "luids": luids,
                       "range": drange, "fs": fs_state(sandbox, tempd, out_mode, foreign)})
    finally:
        tempfile.tempdir = old_tempdir
        os.chdir(cwd)
        shutil.rmtree(sandbox, ignore_errors=True)

    # content ids are resolved once all states are known (frame 0 is written before the
    # first update call, which is where the initial state is observed)
    if not hashes:
        # no update was ever called (zero-step run): the initial state is only visible as the first frame
        first = next((e for e in events if e["ev"] == "save" and e.get("_hash")), None)
        if first is not None:
            hashes[first["_hash"]] = 0

    def resolve(fr):
        h = fr.pop("_hash", None)
        if h is not None:
            fr["content"] = hashes.get(h, BOT)
    for e in events:
        if e["ev"] == "save":
            resolve(e)
        elif e["ev"] == "close":
            for fr in e["frames"]:
                resolve(fr)
    # abstract solve/skip time: the first step count whose running time reaches it
    def first_reach(stage, T):
        for j, c in enumerate(cum[stage]):
            if c >= T:
                return j
        return len(cum[stage]) + 3     # never reached by the logged steps
    cfg = {"k": k, "solveT": first_reach("sim", solve_time), "skipT": first_reach("thermal", skip_time) if skip_time > 0 else 0,
           "out": out_mode, "foreign": foreign, "bad": "none"}
    return {"cfg": cfg, "ev": events, "natural": True,
            "info": {"updates_sim": st["sim_n"], "updates_thermal": st["th_n"], "exc": exc_name,
                     "refused_evaluations": st.get("retries", 0), "evaluations": st.get("evals", 0),
                     "dts": [float(b - a) for a, b in zip(cum["sim"], cum["sim"][1:])][:12]}}
