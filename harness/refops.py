"""Reference finite-volume operators: the formulas of spec/FVOps.tla (which transcribe
docs/background.rst, eqs. gradient, divergence, laplacian, grad-psi, laplacian-psi,
poisson-num) evaluated with numpy on the arrays of a mesh.  Written edge by edge, as the
sums over neighbours of the documentation, NOT after tdgl/finite_volume/operators.py.

This module is itself conformance-checked: on the exact integer instances of the FVOps
universe its matrices are handed to TLC (events with src "ref" of FVOpsTrace) and must
equal the TLA+ definitions entry by entry.  On floating-point meshes it supplies the
"formula" side of the code == formula facts.

All functions take plain arrays:
    n        number of sites
    edges    (m, 2) int, edge e = (i, j) is oriented from i to j
    length   (m,)  e_ij
    dual     (m,)  s_ij
    area     (n,)  a_i
    bidx     (nb,) indices of the boundary edges (column order of the boundary-flux operator)
    theta    (m,)  A . e_ij  (link variable U_ij = exp(-i theta))
and return dense arrays.
"""
from __future__ import annotations

import numpy as np


def link_variables(theta):
    """U_ij = exp(-i A.e_ij)"""
    return np.exp(-1j * np.asarray(theta, dtype=float))


def theta_of(A, directions):
    """A.e_ij for a vector potential sampled on the edges (m, 2) and the edge vectors e_ij = r_j - r_i."""
    A = np.asarray(A, dtype=float)
    d = np.asarray(directions, dtype=float)
    return A[:, 0] * d[:, 0] + A[:, 1] * d[:, 1]


def divergence(n, edges, dual, area):
    """(div F)_i = (1/a_i) sum_j F_ij s_ij, with F_ji = -F_ij and F stored as F_ij on e = (i, j)."""
    m = len(edges)
    D = np.zeros((n, m))
    for e in range(m):
        i, j = edges[e]
        D[i, e] += dual[e] / area[i]        # F_ij leaves cell i
        D[j, e] += -dual[e] / area[j]       # F_ji = -F_ij leaves cell j
    return D


def gradient(n, edges, length, theta=None):
    """((grad - iA) g)_e = (U_e g_j - g_i) / e_ij ; theta=None: the plain gradient."""
    m = len(edges)
    U = np.ones(m) if theta is None else link_variables(theta)
    G = np.zeros((m, n), dtype=U.dtype)
    for e in range(m):
        i, j = edges[e]
        G[e, j] += U[e] / length[e]
        G[e, i] += -1.0 / length[e]
    return G


def laplacian(n, edges, dual, length, area, theta=None):
    """((grad - iA)^2 g)_i = (1/a_i) sum_{j in N(i)} (U_ij g_j - g_i) s_ij / e_ij, U_ji = conj(U_ij)."""
    m = len(edges)
    U = np.ones(m) if theta is None else link_variables(theta)
    L = np.zeros((n, n), dtype=U.dtype)
    for e in range(m):
        i, j = edges[e]
        w = dual[e] / length[e]
        # seen from i the neighbour is j and the link is U_ij
        L[i, j] += w * U[e] / area[i]
        L[i, i] += -w / area[i]
        # seen from j the neighbour is i and the link is U_ji = conj(U_ij)
        L[j, i] += w * np.conj(U[e]) / area[j]
        L[j, j] += -w / area[j]
    return L


def neumann(n, edges, bidx, length, area):
    """(B g)_i = (1/a_i) sum_{b ni i} g_b e_b / 2 : half of each boundary edge to each end point."""
    B = np.zeros((n, len(bidx)))
    for col, e in enumerate(bidx):
        i, j = edges[e]
        B[i, col] += length[e] / 2 / area[i]
        B[j, col] += length[e] / 2 / area[j]
    return B


def supercurrent(edges, length, theta, psi):
    """J_e = Im{ conj(psi_i) (U_e psi_j - psi_i) / e_ij },  e = (i, j)."""
    U = link_variables(theta)
    psi = np.asarray(psi, dtype=complex)
    J = np.zeros(len(edges))
    for e in range(len(edges)):
        i, j = edges[e]
        J[e] = (np.conj(psi[i]) * (U[e] * psi[j] - psi[i]) / length[e]).imag
    return J


def arrays_of(mesh):
    """The arrays of a tdgl.finite_volume.Mesh, as the arguments of the functions above."""
    em = mesh.edge_mesh
    return dict(n=len(mesh.sites), edges=np.asarray(em.edges), length=np.asarray(em.edge_lengths, dtype=float),
                dual=np.asarray(em.dual_edge_lengths, dtype=float), area=np.asarray(mesh.areas, dtype=float),
                bidx=np.asarray(em.boundary_edge_indices), directions=np.asarray(em.directions, dtype=float))
