"""Reference finite-volume operators: the formulas of spec/FVOps.tla (which transcribe
docs/background.rst, eqs. gradient, divergence, laplacian, grad-psi, laplacian-psi,
poisson-num) evaluated with numpy on the arrays of a mesh.  Written edge by edge, as the
sums over neighbours of the documentation, NOT after tdgl/finite_volume/operators.py.

This module is itself conformance-checked: on the exact integer instances of the FVOps
universe its matrices are handed to TLC (events with src "ref" of FVOpsTrace) and must
equal the TLA+ definitions entry by entry.  On floating-point meshes it supplies the
"formula" side of the code == formula facts.

All functions take plain arrays:
    n        number of sites
    edges    (m, 2) int, edge e = (i, j) is oriented from i to j
    length   (m,)  e_ij
    dual     (m,)  s_ij
    area     (n,)  a_i
    bidx     (nb,) indices of the boundary edges (column order of the boundary-flux operator)
    theta    (m,)  A . e_ij  (link variable U_ij = exp(-i theta))
and return dense arrays.
"""
from __future__ import annotations

import numpy as np


def link_variables(theta):
    """U_ij = exp(-i A.e_ij)"""
    return np.exp(-1j * np.asarray(theta, dtype=float))


def theta_of(A, directions):
    """A.e_ij for a vector potential sampled on the edges (m, 2) and the edge vectors e_ij = r_j - r_i."""
    A = np.asarray(A, dtype=float)
    d = np.asarray(directions, dtype=float)
    return A[:, 0] * d[:, 0] + A[:, 1] * d[:, 1]


def divergence(n, edges, dual, area):
    """(div F)_i = (1/a_i) sum_j F_ij s_ij, with F_ji = -F_ij and F stored as F_ij on e = (i, j)."""
    m = len(edges)
    D = np.zeros((n, m))
    for e in range(m):
        i, j = edges[e]
        D[i, e] += dual[e] / area[i]        # F_ij leaves cell i
        D[j, e] += -dual[e] / area[j]       # F_ji = -F_ij leaves cell j
    return D


def gradient(n, edges, length, theta=None):
    """((grad - iA) g)_e = (U_e g_j - g_i) / e_ij ; theta=None: the plain gradient."""
    m = len(edges)
    U = np.ones(m) if theta is None else link_variables(theta)
    G = np.zeros((m, n), dtype=U.dtype)
    for e in range(m):
        i, j = edges[e]
        G[e, j] += U[e] / length[e]
        G[e, i] += -1.0 / length[e]
    return G


def laplacian(n, edges, dual, length, area, theta=None):
    """((grad - iA)^2 g)_i = (1/a_i) sum_{j in N(i)} (U_ij g_j - g_i) s_ij / e_ij, U_ji = conj(U_ij)."""
    m = len(edges)
    U = np.ones(m) if theta is None else link_variables(theta)
    L = np.zeros((n, n), dtype=U.dtype)
    for e in range(m):
        i, j = edges[e]
        w = dual[e] / length[e]
        # seen from i the neighbour is j and the link is U_ij
        L[i, j] += w * U[e] / area[i]
        L[i, i] += -w / area[i]
        # seen from j the neighbour is i and the link is U_ji = conj(U_ij)
        L[j, i] += w * np.conj(U[e]) / area[j]
        L[j, j] += -w / area[j]
    return L


def neumann(n, edges, bidx, length, area):
    """(B g)_i = (1/a_i) sum_{b ni i} g_b e_b / 2 : half of each boundary edge to each end point."""
    B = np.zeros((n, len(bidx)))
    for col, e in enumerate(bidx):
        i, j = edges[e]
        B[i, col] += length[e] / 2 / area[i]
        B[j, col] += length[e] / 2 / area[j]
    return B


def supercurrent(edges, length, theta, psi):
    """J_e = Im{ conj(psi_i) (U_e psi_j - psi_i) / e_ij },  e = (i, j)."""
    U = link_variables(theta)
    psi = np.asarray(psi, dtype=complex)
    J = np.zeros(len(edges))
    for e in range(len(edges)):
        i, j = edges[e]
        J[e] = (np.conj(psi[i]) * (U[e] * psi[j] - psi[i]) / length[e]).imag
    return J


def arrays_of(mesh):
    """The arrays of a tdgl.finite_volume.Mesh, as the arguments of the functions above."""
    em = mesh.edge_mesh
    return dict(n=len(mesh.sites), edges=np.asarray(em.edges), length=np.asarray(em.edge_lengths, dtype=float),
                dual=np.asarray(em.dual_edge_lengths, dtype=float), area=np.asarray(mesh.areas, dtype=float),
                bidx=np.asarray(em.boundary_edge_indices), directions=np.asarray(em.directions, dtype=float))


# ------------------------------------------------------------------ weights from first principles


def geometry(sites, elements):
    """The weights of the finite-volume scheme from the raw triangulation alone (docs/background.rst, "Finite volume
    method": e_ij = |r_j - r_i|; s_ij = the side of the Voronoi (circumcentric dual) cell that crosses edge (i, j); a_i = the
    area of the Voronoi cell of site i inside the film), NOT read back from a tdgl Mesh:

      every triangle (i, j, k) contributes to its edge (i, j) the distance from the edge midpoint to the circumcentre,
      e_ij cot(angle at k) / 2, and to the cells of i and of j the triangle (site, midpoint, circumcentre),
      e_ij^2 cot(angle at k) / 8 each.

    Returns dict(edges (m, 2) sorted pairs in lexicographic order, length, dual, area, boundary (bool per edge),
    regular (bool per edge: boundary edge not encroached [opposite angle <= 90 deg] / interior edge locally Delaunay),
    well_centred (bool per site: the circumcentric construction IS the Voronoi cell clipped to the film, i.e. every
    edge of every incident triangle is regular), reflex (bool per site: boundary site where the film's interior angle
    exceeds 180 deg)).  Where `regular` / `well_centred` is False the circumcentric dual is not the Voronoi diagram and the
    comparison with the package says nothing; the flags are computed from the coordinates alone."""
    S = np.asarray(sites, dtype=float)
    T = np.asarray(elements, dtype=np.int64)
    cots = {}
    for t in range(len(T)):
        for a in range(3):
            i, j, k = int(T[t, a]), int(T[t, (a + 1) % 3]), int(T[t, (a + 2) % 3])
            u, v = S[i] - S[k], S[j] - S[k]
            cross = u[0] * v[1] - u[1] * v[0]
            cots.setdefault((min(i, j), max(i, j)), []).append((t, float(u @ v) / abs(float(cross))))
    edges = np.array(sorted(cots), dtype=np.int64)
    m, n = len(edges), len(S)
    length = np.linalg.norm(S[edges[:, 1]] - S[edges[:, 0]], axis=1)
    w = np.array([sum(c for _, c in cots[tuple(e)]) / 2 for e in edges])
    boundary = np.array([len(cots[tuple(e)]) == 1 for e in edges])
    dual = length * w
    area = np.zeros(n)
    np.add.at(area, edges[:, 0], length ** 2 * w / 4)
    np.add.at(area, edges[:, 1], length ** 2 * w / 4)
    eps = 1e-9
    regular = w >= -eps
    bad_tri = set()
    for e, ok in zip(edges, regular):
        if not ok:
            bad_tri.update(t for t, _ in cots[tuple(e)])
    well = np.ones(n, dtype=bool)
    for t in bad_tri:
        well[T[t]] = False
    # a right angle opposite a boundary edge puts the circumcentre ON the boundary: degenerate, excluded as well
    for e, b in zip(edges, boundary):
        if b and abs(cots[tuple(e)][0][1]) <= eps:
            well[T[cots[tuple(e)][0][0]]] = False
    # interior angle of the film at each boundary site = sum of the incident triangle angles
    angle = np.zeros(n)
    for t in range(len(T)):
        for a in range(3):
            i, j, k = int(T[t, a]), int(T[t, (a + 1) % 3]), int(T[t, (a + 2) % 3])
            u, v = S[j] - S[i], S[k] - S[i]
            angle[i] += np.arctan2(abs(u[0] * v[1] - u[1] * v[0]), float(u @ v))
    bsites = np.zeros(n, dtype=bool)
    bsites[edges[boundary].ravel()] = True
    reflex = bsites & (angle > np.pi * (1 + 1e-6))
    return dict(edges=edges, length=length, dual=dual, area=area, boundary=boundary, regular=regular,
                well_centred=well, reflex=reflex)
