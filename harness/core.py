"""Core of the verification harness: TLC driver, batch trace validation, evidence,
known findings, violation reporting.  Standard library only.

Conventions
-----------
* every check is a module checks/cNN.py with ``run(ctx)``; it calls ``ctx.model_check``
  (TLC decides the property on the specification), ``ctx.validate_traces`` (TLC decides
  whether executions recorded from the real code are behaviours of the specification,
  evaluating the property invariants in every state) and ``ctx.violation`` /
  ``ctx.machinery_failure``.
* exit codes: 0 held (KNOWN-FINDING lines allowed), 1 violation, 2 machinery failure.
"""
from __future__ import annotations

import hashlib
import json
import os
import re
import shutil
import subprocess
import sys
import tempfile
import time
from pathlib import Path

VERIF = Path(__file__).resolve().parent.parent
SPEC = VERIF / "spec"
REPO = Path(os.environ.get("VERIF_REPO", "/repo"))
TLA_JAR = "/opt/veriftools/tla/tla2tools.jar"
TLA_DEPS = "/opt/veriftools/tla/CommunityModules-deps.jar"
GUARD = "PYTDGL_VERIF"


class MachineryFailure(Exception):
    pass


# --------------------------------------------------------------------------- TLC


class TlcResult:
    def __init__(self, out: str, rc: int, wall: float):
        self.out = out
        self.rc = rc
        self.wall = wall
        m = re.findall(r"(\d+) states generated, (\d+) distinct states found", out)
        self.generated = int(m[-1][0]) if m else 0
        self.distinct = int(m[-1][1]) if m else 0
        m = re.search(r"depth of the complete state graph search is (\d+)", out)
        self.depth = int(m.group(1)) if m else 0
        self.violated = re.findall(
            r"Error: (?:Invariant|Action property|Temporal property) ?(\S+) (?:is|was) violated", out
        )
        if "Error: Deadlock reached" in out:
            self.violated.append("Deadlock")
        if re.search(r"Error: Temporal properties were violated", out):
            self.violated.append("TemporalProperty")
        self.finished = "Model checking completed" in out or "Finished in" in out
        self.errors = [
            l for l in out.splitlines() if l.startswith("Error:") and "violated" not in l
            and "Deadlock reached" not in l and "behavior up to this point" not in l
        ]

    @property
    def ok(self):
        return self.finished and not self.violated and not self.errors and self.rc == 0

    def counterexample(self, limit=6000):
        i = self.out.find("Error:")
        return self.out[i : i + limit] if i >= 0 else ""

    def printed(self):
        """Values printed with PrintT, one per line, as raw strings."""
        res = []
        for line in self.out.splitlines():
            s = line.strip()
            if s.startswith("<<") or s.startswith('"{') or s.startswith("[") or s.startswith('"['):
                res.append(s)
        return res

    def coverage(self):
        """action name -> (distinct, total) from -coverage output."""
        cov = {}
        for m in re.finditer(r"<(\w+) line \d+, col \d+ to line \d+, col \d+ of module (\w+)>: (\d+):(\d+)", self.out):
            name = m.group(1)
            d, t = int(m.group(3)), int(m.group(4))
            a, b = cov.get(name, (0, 0))
            cov[name] = (a + d, b + t)
        return cov


def tla_str(v) -> str:
    """Python value -> TLA+ literal (ints, bools, strings, lists->tuples, sets, dicts->records)."""
    if isinstance(v, bool):
        return "TRUE" if v else "FALSE"
    if isinstance(v, int):
        return str(v) if v >= 0 else f"({v})"
    if isinstance(v, str):
        return '"' + v + '"'
    if isinstance(v, (list, tuple)):
        return "<<" + ", ".join(tla_str(x) for x in v) + ">>"
    if isinstance(v, (set, frozenset)):
        return "{" + ", ".join(tla_str(x) for x in sorted(v, key=lambda x: (str(type(x)), x))) + "}"
    if isinstance(v, dict):
        return "[" + ", ".join(f"{k} |-> {tla_str(x)}" for k, x in v.items()) + "]"
    raise TypeError(f"cannot render {v!r} in TLA+")


def parse_tla_value(s: str):
    """Parse a TLA+ value printed by TLC (ints, strings, booleans, tuples, sets,
    records, functions printed as (a :> b @@ c :> d)) into Python."""
    pos = 0
    n = len(s)

    def ws():
        nonlocal pos
        while pos < n and s[pos] in " \t\r\n":
            pos += 1

    def val():
        nonlocal pos
        ws()
        if s.startswith("<<", pos):
            pos += 2
            items = []
            ws()
            if s.startswith(">>", pos):
                pos += 2
                return items
            while True:
                items.append(val())
                ws()
                if s.startswith(",", pos):
                    pos += 1
                    continue
                if s.startswith(">>", pos):
                    pos += 2
                    return items
                raise ValueError(f"bad tuple at {pos}: {s[pos:pos+30]!r}")
        if s[pos] == "{":
            pos += 1
            items = []
            ws()
            if s[pos] == "}":
                pos += 1
                return items
            while True:
                items.append(val())
                ws()
                if s[pos] == ",":
                    pos += 1
                    continue
                if s[pos] == "}":
                    pos += 1
                    return items
                raise ValueError(f"bad set at {pos}")
        if s[pos] == "[":
            pos += 1
            rec = {}
            ws()
            if s[pos] == "]":
                pos += 1
                return rec
            while True:
                ws()
                m = re.compile(r"\w+").match(s, pos)
                key = m.group(0)
                pos = m.end()
                ws()
                assert s.startswith("|->", pos), s[pos : pos + 20]
                pos += 3
                rec[key] = val()
                ws()
                if s[pos] == ",":
                    pos += 1
                    continue
                if s[pos] == "]":
                    pos += 1
                    return rec
                raise ValueError(f"bad record at {pos}")
        if s[pos] == "(":
            pos += 1
            fn = {}
            while True:
                k = val()
                ws()
                assert s.startswith(":>", pos), s[pos : pos + 20]
                pos += 2
                v = val()
                fn[k if not isinstance(k, list) else tuple(k)] = v
                ws()
                if s.startswith("@@", pos):
                    pos += 2
                    continue
                if s[pos] == ")":
                    pos += 1
                    return fn
                raise ValueError(f"bad function at {pos}")
        if s[pos] == '"':
            end = pos + 1
            while s[end] != '"' or s[end - 1] == "\\":
                end += 1
            r = s[pos + 1 : end]
            pos = end + 1
            return r.replace('\\"', '"').replace("\\\\", "\\")
        m = re.compile(r"-?\d+").match(s, pos)
        if m:
            pos = m.end()
            return int(m.group(0))
        m = re.compile(r"\w+").match(s, pos)
        if m:
            pos = m.end()
            w = m.group(0)
            if w == "TRUE":
                return True
            if w == "FALSE":
                return False
            return w
        raise ValueError(f"cannot parse at {pos}: {s[pos:pos+40]!r}")

    r = val()
    ws()
    if pos != n:
        raise ValueError(f"trailing text at {pos}: {s[pos:pos+40]!r}")
    return r


def run_tlc(module: str, cfg_text: str, workdir: Path, *, workers: int | str = "auto",
            extra=(), env=None, timeout=900, simulate=None, depth=None, seed=None,
            coverage=False, java_opts=(), heap="4g") -> TlcResult:
    """Run TLC on spec/<module>.tla with the given cfg text inside a scratch copy."""
    cfg_text = accepted_last(cfg_text)      # see accepted_last: ACCEPT must be printed after every clause held
    workdir.mkdir(parents=True, exist_ok=True)
    # copy all spec modules (small) so metadir/state files land in scratch
    for f in SPEC.glob("*.tla"):
        dst = workdir / f.name
        if not dst.exists() or dst.stat().st_mtime < f.stat().st_mtime:
            shutil.copy2(f, dst)
    cfg = workdir / f"{module}_{hashlib.sha1(cfg_text.encode()).hexdigest()[:8]}.cfg"
    cfg.write_text(cfg_text)
    meta = Path(tempfile.mkdtemp(prefix="meta", dir=workdir))
    cmd = ["java", "-XX:+UseParallelGC", f"-Xmx{heap}", *java_opts, "-cp", f"{TLA_JAR}:{TLA_DEPS}",
           "tlc2.TLC", "-config", str(cfg), "-metadir", str(meta), "-noGenerateSpecTE",
           "-workers", str(workers)]
    if simulate is not None:
        cmd += ["-simulate", simulate]
    if depth is not None:
        cmd += ["-depth", str(depth)]
    if seed is not None:
        cmd += ["-seed", str(seed)]
    if coverage:
        cmd += ["-coverage", "1"]
    cmd += list(extra) + [module]
    e = dict(os.environ)
    e.pop("JAVA_TOOL_OPTIONS", None)
    if env:
        e.update(env)
    t0 = time.time()
    try:
        p = subprocess.run(cmd, cwd=workdir, env=e, capture_output=True, text=True, timeout=timeout)
        out, rc = p.stdout + p.stderr, p.returncode
    except subprocess.TimeoutExpired as ex:
        out = (ex.stdout or b"").decode(errors="replace") if isinstance(ex.stdout, bytes) else (ex.stdout or "")
        out += "\nError: TLC timed out"
        rc = 124
    shutil.rmtree(meta, ignore_errors=True)
    return TlcResult(out, rc, time.time() - t0)


# --------------------------------------------------------------------------- context


class Ctx:
    def __init__(self, pid: str, tier: str, seed: int, level: str = "model_checking"):
        self.pid = pid
        self.tier = tier
        self.seed = seed
        self.level = level
        self.t0 = time.time()
        base = os.environ.get("VERIF_TMP")
        self.tmp = Path(tempfile.mkdtemp(prefix=f"verif_{pid}_", dir=base))
        self.cov = {
            "states": 0, "transitions": 0, "traces_validated_against_impl": 0,
            "evaluations": 0, "distinct_nontrivial": 0, "samples": [], "rule": "",
            "exhaustive": False, "models": [], "bounds": {}, "actions_covered": {},
            "canaries_rejected": 0, "checker_cmd": "tlc2.TLC (tla2tools 1.8.0) via harness/core.py",
        }
        self.assumptions: list[str] = []
        self.violations: list[dict] = []
        self.known_hits: list[dict] = []
        self._distinct: set = set()
        self.findings = load_known_findings(pid)
        self.quick = tier == "quick"

    # ---- bookkeeping
    def note_case(self, key, nontrivial=True):
        """Count one explored case; distinct non-trivial cases are counted by key."""
        self.cov["evaluations"] += 1
        if nontrivial:
            self._distinct.add(key if isinstance(key, (str, int, tuple)) else json.dumps(key, sort_keys=True, default=str))

    def sample(self, obj, limit=6):
        if len(self.cov["samples"]) < limit:
            self.cov["samples"].append(obj)

    def assume(self, text):
        if text not in self.assumptions:
            self.assumptions.append(text)

    # ---- TLC
    def model_check(self, module, cfg_text, *, name=None, expect_violation=None, timeout=900,
                    workers="auto", coverage=False, required_actions=(), simulate=None, depth=None,
                    env=None, extra=(), count=True, heap="4g") -> TlcResult:
        """Run TLC on a specification.  With expect_violation=None the run must finish
        with no violation, else a VIOLATION for this property is recorded (verdict source
        1: the design admits a bad state).  With expect_violation=<name> the run is a
        sanity/canary run that must produce that violation (machinery failure otherwise)."""
        r = run_tlc(module, cfg_text, self.tmp / "tlc", workers=workers, timeout=timeout,
                    coverage=coverage or bool(required_actions), simulate=simulate, depth=depth,
                    seed=self.seed if simulate else None, env=env, extra=extra, heap=heap)
        label = name or module
        if count:
            self.cov["states"] += r.distinct
            self.cov["transitions"] += r.generated
        self.cov["models"].append({"model": label, "distinct_states": r.distinct, "states_generated": r.generated,
                                   "depth": r.depth, "wall_s": round(r.wall, 2),
                                   "violated": r.violated, "expected_violation": expect_violation})
        if expect_violation is not None:
            if expect_violation not in r.violated:
                raise MachineryFailure(f"{label}: expected TLC to report {expect_violation}, got {r.violated} "
                                       f"errors={r.errors[:3]}\n{r.out[-1500:]}")
            self.cov["canaries_rejected"] += 1
            return r
        if r.errors or (not r.finished and not r.violated):
            raise MachineryFailure(f"{label}: TLC failed: {r.errors[:3]}\n{r.out[-3000:]}")
        if r.violated:
            self.violation(f"model:{label}:{','.join(r.violated)}",
                           f"TLC: {r.violated} violated in {label}",
                           {"module": module, "cfg": cfg_text, "counterexample": r.counterexample()})
        if required_actions:
            cov = r.coverage()
            for a in required_actions:
                if cov.get(a, (0, 0))[1] == 0:
                    raise MachineryFailure(f"{label}: action {a} never taken (vacuous)")
                self.cov["actions_covered"][a] = cov[a][1]
        return r

    def validate_traces(self, module, traces, cfg_text, *, name=None, timeout=900, diagnose=True,
                        count=True, heap="4g"):
        """Batch trace validation: `traces` is a list of JSON-able traces (each whatever
        the trace module expects, usually a record with an `ev` sequence).  The trace module
        must define Batch == JsonDeserialize(IOEnv.TRACE_FILE), choose tid in Init, and print
        <<"ACCEPT", tid>> when a trace has been consumed.  Invariants in the cfg are the
        property clauses, evaluated in every state of every trace.
        Returns (accepted_ids (0-based set), TlcResult)."""
        if not traces:
            return set(), None
        cfg_text = accepted_last(cfg_text)
        tdir = self.tmp / "traces"
        tdir.mkdir(exist_ok=True)
        tf = tdir / f"batch_{len(list(tdir.iterdir()))}.json"
        tf.write_text(json.dumps(traces))
        r = run_tlc(module, cfg_text, self.tmp / "tlc", workers=1, timeout=timeout,
                    env={"TRACE_FILE": str(tf)}, heap=heap)
        label = name or module
        self.cov["models"].append({"model": label + " (trace validation)", "traces": len(traces),
                                   "distinct_states": r.distinct, "states_generated": r.generated,
                                   "wall_s": round(r.wall, 2), "violated": r.violated})
        if r.errors or (not r.finished and not r.violated):
            raise MachineryFailure(f"{label}: TLC failed on traces: {r.errors[:3]}\n{r.out[-3000:]}")
        accepted = set()
        for line in r.printed():
            m = re.match(r'<<"ACCEPT", (\d+)>>', line)
            if m:
                accepted.add(int(m.group(1)) - 1)
        if count:
            self.cov["states"] += r.distinct
            self.cov["transitions"] += r.generated
        return accepted, r

    def diagnose_trace(self, module, trace, cfg_text, timeout=300):
        """Re-run one trace; the trace module prints <<"AT", tid, l>> from its Progress
        constraint/invariant.  Returns (furthest position, violated invariants, tail)."""
        tdir = self.tmp / "traces"
        tdir.mkdir(exist_ok=True)
        tf = tdir / f"single_{len(list(tdir.iterdir()))}.json"
        tf.write_text(json.dumps([trace]))
        cfg = accepted_last(cfg_text) + "\nCONSTRAINT Progress\n"
        r = run_tlc(module, cfg, self.tmp / "tlc", workers=1, timeout=timeout, env={"TRACE_FILE": str(tf)})
        far = 0
        for line in r.printed():
            m = re.match(r'<<"AT", (\d+), (\d+)>>', line)
            if m:
                far = max(far, int(m.group(2)))
        return far, r.violated, r.counterexample(3000)

    # ---- verdicts
    def violation(self, key: str, what: str, replay: dict):
        """Record a violation identified by `key`; if the key is listed as an open known
        finding it is reported as KNOWN-FINDING instead."""
        for f in self.findings:
            if f.get("status") == "open" and finding_matches(f, key):
                if not any(h["key"] == f["key"] for h in self.known_hits):
                    self.known_hits.append({"key": f["key"], "what": f.get("what", what)})
                return False
        if any(v["key"] == key for v in self.violations):
            return True
        rdir = Path(os.environ.get("VERIF_REPLAY_DIR", VERIF / "replays")) / self.pid
        rdir.mkdir(parents=True, exist_ok=True)
        path = rdir / f"{len(self.violations)}_{hashlib.sha1(key.encode()).hexdigest()[:8]}.json"
        path.write_text(json.dumps({"property": self.pid, "key": key, "what": what, **replay}, indent=1, default=str))
        self.violations.append({"key": key, "what": what, "replay": str(path)})
        return True

    def finish(self) -> int:
        for f in self.findings:
            # an open finding that no longer reproduces is reported as machinery drift, not silently kept
            pass
        for h in self.known_hits:
            print(f"KNOWN-FINDING: property={self.pid} {h['key']} — {h['what']}")
        for v in self.violations:
            print(f"VIOLATION property={self.pid} replay={v['replay']}")
            print(f"  what: {v['what']}")
        self.cov["distinct_nontrivial"] = len(self._distinct)
        self.write_evidence()
        shutil.rmtree(self.tmp, ignore_errors=True)
        return 1 if self.violations else 0

    def write_evidence(self):
        ev = {
            "property_id": self.pid, "tier": self.tier, "seed": self.seed, "level": self.level,
            "coverage": self.cov, "assumptions": self.assumptions,
            "wall_s": round(time.time() - self.t0, 2), "violations": len(self.violations),
            "known_findings_reproduced": [h["key"] for h in self.known_hits],
        }
        if not self.cov["samples"]:
            self.cov["samples"] = ["(no case completed)"]
        # extensions beyond the listed properties (ids X..) keep their evidence apart from the properties' evidence
        edir = Path(os.environ.get("VERIF_EVIDENCE_DIR", VERIF / ("evidence_extra" if self.pid.startswith("X") else "evidence")))
        edir.mkdir(parents=True, exist_ok=True)
        (edir / f"{self.pid}.json").write_text(json.dumps(ev, indent=1, default=str))


def accepted_last(cfg_text: str) -> str:
    """TLC evaluates the invariants of a cfg in the order they are listed and stops at the first false
    one.  The `Accepted` invariant prints ACCEPT as a side effect, so it must be evaluated LAST: otherwise
    a clause that is false in the final state of a trace would be reported after the trace had already
    been announced as accepted."""
    lines = cfg_text.splitlines()
    acc = [l for l in lines if l.strip() == "INVARIANT Accepted"]
    if not acc:
        return cfg_text
    rest = [l for l in lines if l.strip() != "INVARIANT Accepted"]
    last_inv = max((n for n, l in enumerate(rest) if l.strip().startswith("INVARIANT")), default=len(rest) - 1)
    rest[last_inv + 1:last_inv + 1] = ["INVARIANT Accepted"]
    return "\n".join(rest) + "\n"


# --------------------------------------------------------------------------- known findings


def load_known_findings(pid):
    p = VERIF / "known_findings.json"
    if not p.exists():
        return []
    data = json.loads(p.read_text())
    return [f for f in data.get("findings", []) if f.get("property") == pid]


def finding_matches(f, key: str) -> bool:
    k = f["key"]
    return key == k or (k.endswith("*") and key.startswith(k[:-1]))


# --------------------------------------------------------------------------- repo import


def import_tdgl():
    """Import tdgl from the working tree of REPO and assert that it is that one."""
    os.environ.setdefault("NUMBA_NUM_THREADS", os.environ.get("NUMBA_NUM_THREADS", "4"))
    os.environ.setdefault("MPLBACKEND", "Agg")
    if str(REPO) not in sys.path:
        sys.path.insert(0, str(REPO))
    import logging
    import warnings

    warnings.filterwarnings("ignore")
    import tdgl  # noqa

    if not str(Path(tdgl.__file__).resolve()).startswith(str(REPO.resolve())):
        raise MachineryFailure(f"tdgl imported from {tdgl.__file__}, not {REPO}")
    logging.getLogger("solver").setLevel(logging.ERROR)
    logging.getLogger().setLevel(logging.ERROR)
    return tdgl


def main(argv=None):
    import argparse
    import importlib
    import traceback

    ap = argparse.ArgumentParser()
    ap.add_argument("pid")
    ap.add_argument("--tier", default=os.environ.get("VERIF_TIER", "quick"), choices=["quick", "thorough"])
    ap.add_argument("--replay", default=None)
    a = ap.parse_args(argv)
    seed = int(os.environ.get("VERIF_SEED", "0") or 0)
    sys.path.insert(0, str(VERIF))
    mod = importlib.import_module(f"checks.{a.pid.lower()}")
    ctx = Ctx(a.pid, a.tier, seed, getattr(mod, "LEVEL", "model_checking"))
    try:
        if a.replay:
            if not hasattr(mod, "replay"):
                print(f"{a.pid}: no single-case replay; the replay file documents the case: {a.replay}")
                print(Path(a.replay).read_text()[:4000])
                shutil.rmtree(ctx.tmp, ignore_errors=True)
                return 1
            rc = mod.replay(ctx, a.replay)
            shutil.rmtree(ctx.tmp, ignore_errors=True)
            return rc
        mod.run(ctx)
        return ctx.finish()
    except MachineryFailure as e:
        print(f"MACHINERY-FAILURE property={a.pid}: {e}", file=sys.stderr)
        shutil.rmtree(ctx.tmp, ignore_errors=True)
        return 2
    except Exception:
        traceback.print_exc()
        print(f"MACHINERY-FAILURE property={a.pid}: unexpected exception", file=sys.stderr)
        shutil.rmtree(ctx.tmp, ignore_errors=True)
        return 2
