"""Controller for the live-monitor channel: runs the real solver (writer) and the real monitor (reader) as two gated
processes on one real HDF5 SWMR file and interleaves their operations along a schedule (see monchild.py)."""
from __future__ import annotations

import json
import os
import select
import shutil
import subprocess
import sys
import tempfile

VERIF = os.path.dirname(os.path.dirname(os.path.abspath(__file__)))


class Child:
    def __init__(self, role, args, env):
        self.role = role
        ev_r, ev_w = os.pipe()
        go_r, go_w = os.pipe()
        a = dict(args, ev_fd=ev_w, go_fd=go_r)
        self.p = subprocess.Popen([sys.executable, "-m", "harness.monchild", role, json.dumps(a)], cwd=VERIF, env=env,
                                  pass_fds=(ev_w, go_r), stdin=subprocess.DEVNULL)
        os.close(ev_w)
        os.close(go_r)
        self.ev, self.go = ev_r, go_w
        self.buf = b""
        self.pending = None          # the operation the child is blocked on
        self.done = False

    def next_event(self, timeout=120.0):
        """Read the next announcement (blocks)."""
        while b"\n" not in self.buf:
            r, _, _ = select.select([self.ev], [], [], timeout)
            if not r:
                raise TimeoutError(f"{self.role}: no announcement within {timeout}s (blocked on {self.pending})")
            c = os.read(self.ev, 65536)
            if not c:
                self.done = True
                self.pending = None
                return None
            self.buf += c
        line, self.buf = self.buf.split(b"\n", 1)
        self.pending = json.loads(line)
        if self.pending["op"] == "done":
            self.done = True
        return self.pending

    def release(self):
        os.write(self.go, b"go\n")

    def kill(self):
        try:
            os.write(self.go, b"quit\n")
        except OSError:
            pass
        try:
            self.p.wait(timeout=5)
        except subprocess.TimeoutExpired:
            self.p.kill()
            self.p.wait()
        for fd in (self.ev, self.go):
            try:
                os.close(fd)
            except OSError:
                pass


def run_schedule(tdgl_unused, a, tmp):
    """a: dict(schedule=[...'W'/'R'...], writer={...}, reader={...}, max_ops=...).  Returns the observed event list:
    every event is the operation PERFORMED (with its result), in the global order the controller released them."""
    work = tempfile.mkdtemp(prefix="mon", dir=tmp)
    repo = os.environ.get("VERIF_REPO", "/repo")
    env = dict(os.environ, PYTHONPATH=VERIF, NUMBA_NUM_THREADS="1", OMP_NUM_THREADS="1", MPLBACKEND="agg",
               HDF5_USE_FILE_LOCKING="FALSE", PYTHONHASHSEED="0")
    out = os.path.join(work, "out.h5")
    w = Child("writer", dict(a.get("writer", {}), repo=repo, verif=VERIF, work=work, out=out), env)
    r = None
    events = []
    launched = False
    false_exists = 0
    try:
        w.next_event()
        sched = list(a["schedule"])
        pos = 0
        limit = a.get("max_ops", 4000)
        after = a.get("tail", "W")          # when the schedule is exhausted: who runs first to completion
        while len(events) < limit:
            if pos < len(sched):
                who = {1: "W", 0: "R"}.get(sched[pos], sched[pos])
                pos += 1
            else:
                who = after if not (w.done if after == "W" else (r is None or r.done)) else ("R" if after == "W" else "W")
            c = w if who == "W" else r
            if c is None or c.done:
                other = r if who == "W" else w
                if other is None or other.done:
                    break
                continue
            op = c.pending
            if who == "R" and op["op"] == "open" and not launched and not a.get("early_reader"):
                continue                        # the reader does not exist before it is launched
            c.release()
            nxt = c.next_event()
            is_done = bool(nxt) and nxt.get("op") == "done"
            ev = dict(op, p=who, res=(None if is_done else (nxt or {}).get("res")))
            ev.pop("n", None)
            events.append(ev)
            if is_done:          # the child's call returned / raised: an event of its own
                events.append({"p": who, "op": "done", "res": nxt.get("res")})
            if who == "R" and op["op"] == "exists" and ev["res"] is False:
                false_exists += 1
                if false_exists >= a.get("reader_stop_after_gone", 3):
                    r.done = True       # the monitor keeps polling a channel that is gone (no window to close)
            if who == "W" and op["op"] == "launch":
                launched = True
                r = Child("reader", dict(a.get("reader", {}), repo=repo, verif=VERIF, tmp_path=out + ".tmp"), env)
                r.next_event()
        files = sorted(os.listdir(work))
        return {"args": a, "events": events, "files": files, "writer_done": w.done, "reader_done": (r.done if r else None),
                "reader_exited": (r.p.poll() if r else None)}
    finally:
        w.kill()
        if r is not None:
            r.kill()
        shutil.rmtree(work, ignore_errors=True)


if __name__ == "__main__":
    a = json.loads(sys.argv[1]) if len(sys.argv) > 1 else {"schedule": [], "writer": {"solve_time": 3 * 2.0 ** -6 - 2.0 ** -7}}
    res = run_schedule(None, a, tempfile.gettempdir())
    for e in res["events"]:
        print(json.dumps(e))
    print({k: v for k, v in res.items() if k not in ("events", "args")})
