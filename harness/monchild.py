"""Gated child processes for the live-monitor channel (MonitorChannel.tla).

    python -m harness.monchild writer <json args>      real tdgl.solve, every operation on the ``.tmp`` file gated
    python -m harness.monchild reader <json args>      real tdgl.visualization.monitor_solution, every read gated

A child announces the operation it is about to perform on file descriptor EV (one JSON line) and blocks until the
controller (harness/monitor.py) writes one line to file descriptor GO; the NEXT announcement carries the result of the
operation just performed (`res`).  So the controller decides the interleaving of the two real processes, operation
by operation, on a real HDF5 file in SWMR mode.  Nothing of the code under test is changed: the wrappers delegate.
"""
from __future__ import annotations

import hashlib
import json
import os
import sys

EV = GO = None
_last_res = None
_n = 0


def _h(a):
    import numpy as np
    a = np.ascontiguousarray(np.asarray(a).astype(np.complex128)).ravel()     # content only: dtype/shape of the handle do not matter
    return hashlib.sha1(a.tobytes()).hexdigest()[:12]


def _first(a):
    import numpy as np
    a = np.asarray(a)
    return float(np.real(a.flat[0])) if a.size else None


def gate(op, **kw):
    """Announce `op`, wait for the controller.  Returns after the go token."""
    global _last_res, _n
    _n += 1
    ev = dict(kw, op=op, n=_n, res=_last_res)
    _last_res = None
    os.write(EV, (json.dumps(ev) + "\n").encode())
    tok = b""
    while not tok.endswith(b"\n"):
        c = os.read(GO, 1)
        if not c:
            os._exit(7)          # controller went away
        tok += c
    if tok.strip() == b"quit":
        os._exit(0)


def result(r):
    global _last_res
    _last_res = r


def _is_tmp(obj):
    try:
        return str(obj.file.filename).endswith(".tmp")
    except Exception:
        return False


def _rel(obj, name=None):
    n = obj.name.strip("/")
    if name is not None:
        n = (n + "/" + str(name).strip("/")).strip("/")
    return n


# ------------------------------------------------------------------------------------------------ writer


def writer(a):
    import h5py
    import numpy as np

    sys.path.insert(0, a["repo"])
    import tdgl
    from tdgl.solver import runner as runner_mod

    depth = {"n": 0}      # nested operations (Device.to_hdf5 into the channel) count as one

    G_set = h5py.Group.__setitem__
    G_create = h5py.Group.create_group
    D_set = h5py.Dataset.__setitem__
    D_flush = h5py.Dataset.flush
    F_flush = h5py.File.flush
    F_close = h5py.File.close
    os_remove = os.remove

    def g_set(self, name, obj):
        if not _is_tmp(self) or depth["n"]:
            return G_set(self, name, obj)
        gate("create", key=_rel(self, name), h=_h(obj), first=_first(obj))
        return G_set(self, name, obj)

    def g_create(self, name, *args, **kw):
        if not _is_tmp(self) or depth["n"]:
            return G_create(self, name, *args, **kw)
        gate("create", key=_rel(self, name), h="group")
        return G_create(self, name, *args, **kw)

    def d_set(self, args, val):
        if not _is_tmp(self) or depth["n"]:
            return D_set(self, args, val)
        gate("write", key=_rel(self), h=_h(val), first=_first(val))
        return D_set(self, args, val)

    def d_flush(self):
        if not _is_tmp(self) or depth["n"]:
            return D_flush(self)
        gate("flush", key=_rel(self))
        return D_flush(self)

    def f_flush(self):
        if not str(self.filename).endswith(".tmp"):
            return F_flush(self)
        gate("fflush")
        return F_flush(self)

    def f_close(self):
        if not self.id.valid or not str(self.filename).endswith(".tmp"):
            return F_close(self)
        gate("close")
        return F_close(self)

    def remove(path, *args, **kw):
        if str(path).endswith(".tmp"):
            gate("remove")
        return os_remove(path, *args, **kw)

    swmr_prop = h5py.File.swmr_mode

    def swmr_set(self, value):
        if str(self.filename).endswith(".tmp"):
            gate("swmr", value=bool(value))
        return swmr_prop.fset(self, value)

    real_popen = runner_mod.subprocess.Popen

    def _Popen(cmd, *args, **kw):
        if isinstance(cmd, (list, tuple)) and "tdgl.visualize" in [str(c) for c in cmd]:
            gate("launch", cmd=[str(c) for c in cmd[1:]])          # the controller starts the gated monitor instead
            return None
        return real_popen(cmd, *args, **kw)

    h5py.Group.__setitem__ = g_set
    h5py.Group.create_group = g_create
    h5py.Dataset.__setitem__ = d_set
    h5py.Dataset.flush = d_flush
    h5py.File.flush = f_flush
    h5py.File.close = f_close
    h5py.File.swmr_mode = property(swmr_prop.fget, swmr_set)
    os.remove = remove
    runner_mod.subprocess.Popen = _Popen

    # the device is saved into the channel in one go (many nested creations): one gated operation
    dev_to_hdf5 = tdgl.Device.to_hdf5

    def to_hdf5(self, path_or_group, *args, **kw):
        if hasattr(path_or_group, "file") and _is_tmp(path_or_group):
            depth["n"] += 1
            try:
                return dev_to_hdf5(self, path_or_group, *args, **kw)
            finally:
                depth["n"] -= 1
        return dev_to_hdf5(self, path_or_group, *args, **kw)
    tdgl.Device.to_hdf5 = to_hdf5

    sys.path.insert(0, a["verif"])
    from harness import devices
    dev = devices.make(tdgl, a.get("dev", "bar"), probes=a.get("probes", 2))
    os.chdir(a["work"])
    opts = tdgl.SolverOptions(solve_time=a["solve_time"], skip_time=a.get("skip_time", 0.0), dt_init=a.get("dt", 2.0 ** -6),
                              adaptive=a.get("adaptive", False), dt_max=a.get("dt_max", 0.1), save_every=a.get("k", 1),
                              output_file=a["out"], monitor=a.get("monitor", True), monitor_update_interval=0.001,
                              progress_interval=10 ** 9, pause_on_interrupt=a.get("pause", False), field_units="mT", current_units="uA",
                              include_screening=a.get("screening", False))
    kw = dict(applied_vector_potential=a.get("field", 0.4))
    cur = devices.balanced_currents(a.get("dev", "bar"), a.get("current", 3.0))
    if cur:
        kw["terminal_currents"] = cur
    if a.get("dyn_eps"):
        kw["disorder_epsilon"] = lambda r, *, t: 1.0 - 0.1 * min(1.0, t)
    if a.get("fault_at"):
        # the run is stopped from inside: a cancellation (KeyboardInterrupt; through the pause prompt when the options
        # say so) or an error in the update, at update call number fault_at
        import builtins
        from tdgl.solver.solver import TDGLSolver
        orig_update = TDGLSolver.update
        calls = {"n": 0}

        def upd(self, *args, **kw2):
            calls["n"] += 1
            if calls["n"] == a["fault_at"]:
                raise (KeyboardInterrupt() if a.get("fault_kind", "KI") == "KI" else RuntimeError("injected"))
            return orig_update(self, *args, **kw2)
        TDGLSolver.update = upd
        builtins.input = lambda prompt="": "n"
    outcome = "returned"
    try:
        tdgl.solve(dev, opts, **kw)
    except BaseException as e:          # noqa: BLE001 - the outcome is an observation
        outcome = f"raised {type(e).__name__}: {e}"[:300]
    result(outcome)
    gate("done")


# ------------------------------------------------------------------------------------------------ reader


def reader(a):
    os.environ.setdefault("MPLBACKEND", "agg")
    os.environ["HDF5_USE_FILE_LOCKING"] = "FALSE"
    import h5py
    import numpy as np

    sys.path.insert(0, a["repo"])
    import tdgl  # noqa: F401
    from tdgl.visualization import monitor as monitor_mod

    state = {"dev": 0}
    F_init = h5py.File.__init__
    G_get = h5py.Group.__getitem__
    D_array = h5py.Dataset.__array__

    def f_init(self, name, mode="r", *args, **kw):
        if str(name).endswith(".tmp"):
            gate("open", swmr=bool(kw.get("swmr")))
            try:
                r = F_init(self, name, mode, *args, **kw)
            except BaseException as e:      # noqa: BLE001
                result(f"raised {type(e).__name__}: {e}"[:200])
                raise
            result("ok")
            return r
        return F_init(self, name, mode, *args, **kw)

    def g_get(self, name):
        if not _is_tmp(self) or state["dev"]:
            return G_get(self, name)
        key = _rel(self, name)
        if key == "solution/device":
            gate("device")
            state["dev"] = 1                 # Device.from_hdf5 reads many nested objects: one operation
            try:
                r = G_get(self, name)
            except BaseException as e:      # noqa: BLE001
                result(f"raised {type(e).__name__}"); state["dev"] = 0
                raise
            return r
        try:
            obj = G_get(self, name)
        except KeyError:
            gate("read", key=key)
            result("missing")
            raise
        if isinstance(obj, h5py.Dataset):
            gate("read", key=key)
            # re-open after the gate: the handle must be as fresh as the one the monitor would have obtained
            obj = G_get(self, name)
        return obj

    def d_array(self, *args, **kw):
        if hasattr(self, "refresh") and _is_tmp(self) and not state["dev"]:
            pass
        r = D_array(self, *args, **kw)
        if _is_tmp(self) and not state["dev"]:
            result({"h": _h(r), "first": (float(np.real(r.flat[0])) if r.size else None)})
        return r

    dev_from = monitor_mod.Device.from_hdf5

    def from_hdf5(*args, **kw):
        try:
            d = dev_from(*args, **kw)
            result("ok")
            return d
        finally:
            state["dev"] = 0
    monitor_mod.Device.from_hdf5 = staticmethod(from_hdf5)

    h5py.File.__init__ = f_init
    h5py.Group.__getitem__ = g_get
    h5py.Dataset.__array__ = d_array

    # the panel update is one observable step: record when a display cycle completes
    import matplotlib.pyplot as plt
    fig_draw = {"n": 0}
    orig_exists = os.path.exists

    def exists(p):
        if str(p).endswith(".tmp"):
            gate("exists")
            r = orig_exists(p)
            result(bool(r))
            return r
        return orig_exists(p)
    monitor_mod.os.path.exists = exists

    outcome = "returned"
    try:
        monitor_mod.monitor_solution(a["tmp_path"], quantities=a.get("quantities", ["order_parameter"]),
                                     update_interval=1e-4, autoscale=a.get("autoscale", True))
    except SystemExit as e:
        outcome = f"exit {e.code}"
    except BaseException as e:      # noqa: BLE001
        outcome = f"raised {type(e).__name__}: {e}"[:300]
    result(outcome)
    gate("done")


if __name__ == "__main__":
    role, args = sys.argv[1], json.loads(sys.argv[2])
    EV, GO = int(args["ev_fd"]), int(args["go_fd"])
    # keep stdout/stderr of the code under test out of the way
    devnull = os.open(os.devnull, os.O_WRONLY)
    if not args.get("verbose"):
        os.dup2(devnull, 1)
        os.dup2(devnull, 2)
    {"writer": writer, "reader": reader}[role](args)
