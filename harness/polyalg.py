"""Binding of spec/PolyAlg.tla to the real tdgl.Polygon / tdgl.Device (C18).

spec -> code : chains of operations exported by TLC (PolyAlg!Emit) are concretised with real
               objects (boxes given in either orientation, open or closed, different vertex counts and
               input types; methods, operators and class methods) and executed;
code -> spec : after every operation every live object / device is abstracted (membership of the cell
               centres through contains_points, area, bounding box, closed, signed area > 0, identity of the
               returned object through `is`, sharing of vertex buffers) and the recorded trace is validated
               by TLC against spec/PolyAlgTrace.tla.  Python never judges: it concretises, records, abstracts.
Shapes without a cell model (circles, ellipses, arbitrary angles) are recorded as relation traces of
quantised integers (PolyAlg!RelHolds decides).
"""
from __future__ import annotations

import collections
import hashlib
import json
import math
import random

import numpy as np

from . import core

MECH = dict(MSubIsDifference=True, MCopyOnTransform=True, MOrient=True, MCopyFresh=True, MDeviceUsesHoles=True,
            MProbeOrigin=True)
CLAUSES = ["TypeOK", "OnlySetOpsFail", "ProbesValidatedAtConstruction", "PrimitiveAngleIsCounterClockwise", "AreaMatchesMembership", "StoredClosedAndCCW", "AreaLaw", "PointsMapWithShapes",
           "SetOpsArePointwise", "NonInplaceNeverMutates", "InplaceReturnsSelf", "CopiesDoNotAlias",
           "DeviceIsFilmMinusHoles"]
POLY_OPS = ["setop", "rotate", "translate", "scale", "copy", "poke"]
DEV_OPS = ["mkdev", "devcopy", "devtranslate", "devrotate", "devscale"]
ACTION_OF = {"setop": "ASetOp", "rotate": "ARotate", "translate": "ATranslate", "scale": "AScale", "copy": "ACopy",
             "poke": "APoke", "mkdev": "AMkDev", "devcopy": "ADevCopy", "devtranslate": "ADevTranslate",
             "devrotate": "ADevRotate", "devscale": "ADevScale"}

# ------------------------------------------------------------------ codecs


def pair(a, b):
    assert -8 <= a <= 7 and -8 <= b <= 7
    return ((a + 8) << 4) | (b + 8)


def unpair(c):
    return ((c >> 4) & 15) - 8, (c & 15) - 8


def boxcode(x0, y0, x1, y1):
    return ((x0 + 8) << 12) | ((y0 + 8) << 8) | ((x1 + 8) << 4) | (y1 + 8)


def unbox(c):
    return ((c >> 12) & 15) - 8, ((c >> 8) & 15) - 8, ((c >> 4) & 15) - 8, (c & 15) - 8


def all_boxes(H, lo=None, hi=None):
    lo = -H if lo is None else lo
    hi = H if hi is None else hi
    return [(x0, y0, x1, y1) for x0 in range(lo, hi) for x1 in range(x0 + 1, hi + 1)
            for y0 in range(lo, hi) for y1 in range(y0 + 1, hi + 1)]


def _set(xs):
    return "{" + ", ".join(str(x) for x in xs) + "}"


def _sset(xs):
    return "{" + ", ".join('"%s"' % x for x in xs) + "}"


def constants_text(b, mech=None, export=False):
    m = dict(MECH)
    m.update(mech or {})
    t = ["CONSTANTS", f" H = {b['H']}", f" Boxes = {_set(boxcode(*x) for x in b['Boxes'])}",
         f" MinBoxes = {b.get('MinBoxes', 1)}", f" MaxBoxes = {b['MaxBoxes']}", f" MaxOps = {b['MaxOps']}", f" Quarters = {_set(b['Quarters'])}",
         f" Shifts = {_set(pair(*x) for x in b['Shifts'])}", f" Factors = {_set(pair(*x) for x in b['Factors'])}",
         f" Origins = {_set(pair(*x) for x in b['Origins'])}", f" MaxHoles = {b['MaxHoles']}", f" Chained = {'TRUE' if b.get('Chained') else 'FALSE'}",
         f" PolyOps = {_sset(b['PolyOps'])}", f" DevOps = {_sset(b['DevOps'])}",
         f" ProbeModes = {_sset(b.get('ProbeModes', ['none']))}", f" TiltQuarters = {_set(b.get('TiltQuarters', [0]))}",
         f" Export = {'TRUE' if export else 'FALSE'}"]
    for k, v in m.items():
        t.append(f" {k} = {'TRUE' if v else 'FALSE'}")
    return "\n".join(t) + "\n"


def model_cfg(b, invariants, mech=None, export=False, view=True):
    return (constants_text(b, mech, export) + "SPECIFICATION Spec\n" + "".join(f"INVARIANT {i}\n" for i in invariants)
            + "CHECK_DEADLOCK FALSE\n" + ("VIEW view\n" if view else ""))


TRACE_BOUNDS = dict(H=3, Boxes=[], MaxBoxes=0, MaxOps=0, Quarters=[], Shifts=[], Factors=[], Origins=[], MaxHoles=2,
                    PolyOps=[], DevOps=[])


def trace_cfg(H, invariants=CLAUSES, strict=True, mech=None):
    b = dict(TRACE_BOUNDS, H=H)
    return (constants_text(b, mech) + f" Strict = {'TRUE' if strict else 'FALSE'}\nSPECIFICATION TSpec\n"
            + "INVARIANT Accepted\n" + "".join(f"INVARIANT {i}\n" for i in invariants) + "CHECK_DEADLOCK FALSE\n")


def parse_chains(tlc_result, max_ops=None):
    """PolyAlg!Emit prints every chain prefix with the expected heap after its last step.  Returns the
    maximal chains as lists of {o: operation, exp: expected heap after it}."""
    exp = {}
    leaves = []
    for line in tlc_result.printed():
        if line.startswith('"{'):
            rec = json.loads(json.loads(line))
            key = json.dumps(rec["ops"], sort_keys=True)
            exp[key] = rec
    keys = set(exp)
    inner = set()
    for rec in exp.values():
        if len(rec["ops"]) > 1:
            inner.add(json.dumps(rec["ops"][:-1], sort_keys=True))
    for key, rec in exp.items():
        if key in inner:
            continue
        ops = rec["ops"]
        chain = []
        for n in range(1, len(ops) + 1):
            pre = exp.get(json.dumps(ops[:n], sort_keys=True))
            if pre is None:
                raise core.MachineryFailure("export: missing prefix of a chain")
            chain.append({"o": ops[n - 1], "exp": pre["exp"]})
        leaves.append(chain)
    return leaves


def chain_key(chain):
    out = []
    for st in chain:
        o = st["o"]
        if o["op"] == "new":
            out.append("new%s%s" % (unbox(o["a"]), " angle=%d" % (90 * o["q"]) if o["q"] else ""))
        else:
            out.append("%s%s(%s%s%s%s%s%s)%s" % (
                o["op"], ":" + o["kind"] if o["kind"] else "", o["a"], "," + str(o["b"]) if o["b"] else "",
                ",q%d" % o["q"] if o["q"] else "", ",p%s" % (tuple(o["par"]),) if o["op"] in ("translate", "scale", "poke", "devtranslate", "devscale") else "",
                ",o%s" % (tuple(o["org"]),) if tuple(o["org"]) != (0, 0) else "",
                (",h%s" % o["hs"] if o["hs"] else "") + (",probes %s" % o["pm"] if o.get("pm", "none") != "none" else ""),
                "!" if o["inplace"] else ""))
    return " ; ".join(out)


# ------------------------------------------------------------------ abstraction (code -> spec)

BOT = 99  # an observation that maps to no abstract value


def _int_or_bot(x, tol=1e-9):
    r = round(float(x))
    if not math.isfinite(float(x)) or abs(float(x) - r) > tol * (1 + abs(r)) or abs(r) > 90:
        return BOT
    return int(r)


def centres(H):
    return np.array([[x + 0.5, y + 0.5] for y in range(-H, H) for x in range(-H, H)], dtype=float)


def rows_of(mask, H):
    m = np.asarray(mask, dtype=bool).reshape(2 * H, 2 * H)  # [row y][col x]
    return [int(sum((1 << x) for x in range(2 * H) if m[y, x])) for y in range(2 * H)]


def signed_area(pts):
    x, y = pts[:, 0], pts[:, 1]
    return 0.5 * float(np.sum(x[:-1] * y[1:] - x[1:] * y[:-1])) if len(pts) > 1 else 0.0


class Frame:
    """Where and how large the cell grid is drawn: real point = base + unit * grid point.  The model knows nothing of
    it ("any centre", any length unit); all numbers are dyadic, so the concretisation stays exact."""

    def __init__(self, name, base, unit, tol):
        self.name, self.base, self.unit, self.tol = name, np.array(base, dtype=float), float(unit), tol

    def pt(self, xy):
        return tuple(float(v) for v in self.base + self.unit * np.asarray(xy, dtype=float))

    def pts(self, arr):
        return self.base + self.unit * np.asarray(arr, dtype=float)

    def back(self, arr):
        return (np.asarray(arr, dtype=float) - self.base) / self.unit

    @property
    def home(self):
        return self.unit == 1.0 and not self.base.any()


FRAMES = [Frame("origin, unit 1", (0, 0), 1.0, 1e-9),
          Frame("centre (400000, 250000), unit 1", (400000, 250000), 1.0, 1e-6),
          Frame("origin, unit 2^-30", (0, 0), 2.0 ** -30, 1e-9),
          Frame("centre (-300000, 700000), unit 1/2", (-300000, 700000), 0.5, 1e-6)]


XIS = [1.0, 0.5, 2.0]     # coherence lengths of the devices' layers (dyadic)


def frame_of(variant, about_origin=False):
    """about_origin: the chain uses the primitives' `angle` argument, which turns about the real (0, 0): only the
    frames whose base is (0, 0) draw the grid where the model has it."""
    fs = [f for f in FRAMES if not f.base.any()] if about_origin else FRAMES
    return fs[(variant // 97) % len(fs)]


def abstract_obj(p, H, C, fr=FRAMES[0]):
    pts = np.asarray(p.points)
    (minx, miny), (maxx, maxy) = p.bbox
    lo, hi = fr.back((minx, miny)), fr.back((maxx, maxy))
    t = fr.tol
    return {"rows": rows_of(p.contains_points(fr.pts(C)), H), "area": _int_or_bot(p.area / fr.unit ** 2, t),
            "bbox": [_int_or_bot(lo[0], t), _int_or_bot(lo[1], t), _int_or_bot(hi[0], t), _int_or_bot(hi[1], t)],
            "closed": bool(pts.ndim == 2 and len(pts) >= 4 and np.max(np.abs(pts[0] - pts[-1])) <= 1e-9 * fr.unit),
            "ccw": bool(signed_area(fr.back(pts)) > 0)}


class Heap:
    """Registry of live real objects; index + 1 = object id of the specification."""

    def __init__(self, tdgl, H, fr=FRAMES[0], xi=1.0):
        self.tdgl = tdgl
        self.fr = fr
        self.xi = xi
        self.share_names = False
        self.H = H
        self.C = centres(H)
        self.objs = []
        self.devs = []

    def obj_id(self, p, register=True):
        for i, q in enumerate(self.objs):
            if q is p:
                return i + 1
        if not register:
            return 0
        self.objs.append(p)
        p.name = f"p{len(self.objs)}"   # unique names (Device requires them); the name is not part of the model
        return len(self.objs)

    def dev_id(self, d):
        for i, q in enumerate(self.devs):
            if q is d:
                return i + 1
        self.devs.append(d)
        self.obj_id(d.film)
        for h in d.holes:
            self.obj_id(h)
        return len(self.devs)

    def snapshot(self):
        objs = []
        for i, p in enumerate(self.objs):
            a = abstract_obj(p, self.H, self.C, self.fr)
            a["lead"] = 1 + min(j for j, q in enumerate(self.objs) if np.shares_memory(q.points, p.points))
            objs.append(a)
        devs = []
        for d in self.devs:
            pr = [] if d.probe_points is None else [[_int_or_bot(2 * x, self.fr.tol), _int_or_bot(2 * y, self.fr.tol)]
                                                    for x, y in self.fr.back(np.atleast_2d(d.probe_points))]
            devs.append({"film": self.obj_id(d.film), "holes": [self.obj_id(h) for h in d.holes],
                         "inside": rows_of(d.contains_points(self.fr.pts(self.C)), self.H), "probes": pr})
        return objs, devs


# ------------------------------------------------------------------ concretisation (spec -> code)


def box_points(tdgl, code, v, fr=FRAMES[0]):
    """A box of the grid as Polygon input, in one of several documented input forms."""
    from shapely import geometry as geo
    from tdgl.geometry import box as gbox

    x0, y0, x1, y1 = unbox(code)
    ccw = fr.pts([(x0, y0), (x1, y0), (x1, y1), (x0, y1)])
    w, h, c = (x1 - x0) * fr.unit, (y1 - y0) * fr.unit, fr.pt(((x0 + x1) / 2, (y0 + y1) / 2))
    form = v % 8
    if form == 0:
        return ccw, "corners ccw open"
    if form == 1:
        return np.vstack([ccw[::-1], ccw[-1:]]), "corners cw closed"
    if form == 2:
        return gbox(w, h, center=c), "geometry.box 101 points"
    if form == 3:
        n = 8 + 4 * ((v // 8) % 9)
        return gbox(w, h, points=n, center=c)[::-1], f"geometry.box {n} points reversed"
    if form == 4:
        return geo.Polygon(ccw[::-1]), "shapely Polygon cw"
    if form == 5:
        mids = []
        for k in range(4):
            a, b = ccw[k], ccw[(k + 1) % 4]
            mids += [a, (a + b) / 2]
        mids = np.roll(np.array(mids), 2 * ((v // 8) % 4) + 1, axis=0)
        return np.vstack([mids, mids[:1]]), "corners + edge midpoints, rolled, closed"
    if form == 6:
        return geo.LinearRing(ccw), "shapely LinearRing ccw"
    n = 5 + (v // 8) % 23
    return gbox(w, h, points=n, center=c), f"geometry.box {n} points"


def apply_op(tdgl, heap, o, v):
    """Execute one operation of a chain on the real objects.  Returns (returned object or None, form)."""
    Polygon = tdgl.Polygon
    op = o["op"]
    objs, devs = heap.objs, heap.devs
    fr = heap.fr
    u = fr.unit
    if op == "new" and o["q"]:
        # through the primitive's own `angle` argument (tdgl.geometry.box -> tdgl.geometry.rotate)
        from tdgl.geometry import box as gbox

        x0, y0, x1, y1 = unbox(o["a"])
        n = [101, 16, 40, 9, 24][v % 5]
        pts = gbox((x1 - x0) * u, (y1 - y0) * u, points=n, center=fr.pt(((x0 + x1) / 2, (y0 + y1) / 2)), angle=[90, 90.0][v % 2] * o["q"])
        return Polygon(points=pts[::-1] if v % 3 == 0 else pts), f"geometry.box {n} points angle={90 * o['q']}"
    if op == "new":
        pts, form = box_points(tdgl, o["a"], v, fr)
        return Polygon(points=pts), form
    a = o["a"]
    if op == "setop":
        A, B = objs[a - 1], objs[o["b"] - 1]
        kind = o["kind"]
        form = v % 5
        if form == 0:
            return getattr(A, kind)(B), "method(Polygon)"
        if form == 1:
            import operator

            f = {"union": operator.add, "intersection": operator.mul, "difference": operator.sub}[kind]
            return f(A, B), "operator " + {"union": "+", "intersection": "*", "difference": "-"}[kind]
        if form == 2:
            return getattr(A, kind)(B.points), "method(ndarray)"
        if form == 3:
            return getattr(Polygon, "from_" + kind)([A, B.polygon]), "classmethod from_%s([Polygon, shapely])" % kind
        return getattr(A, kind)(B, name="joined"), "method(Polygon, name=...)"
    if op == "rotate":
        P = objs[a - 1]
        # 90q + 360 is left out on purpose: shapely snaps cos/sin only below 2.5e-16, cos(450 deg) = 3.1e-16, so the
        # rotated box is not exactly representable any more and is outside the exact cell model
        deg = [90 * o["q"], 90.0 * o["q"], 90 * o["q"] - 360, float(90 * o["q"] - 360)][v % 4]
        org = (tuple(o["org"]) if v % 2 else tuple(float(x) for x in o["org"])) if fr.home else fr.pt(o["org"])
        if tuple(o["org"]) == (0, 0) and v % 3 == 0 and fr.home:
            return P.rotate(deg, inplace=o["inplace"]), f"rotate({deg}) default origin"
        return P.rotate(deg, origin=org, inplace=o["inplace"]), f"rotate({deg}, origin={org})"
    if op == "translate":
        P = objs[a - 1]
        dx, dy = (o["par"][0], o["par"][1]) if fr.home else (o["par"][0] * u, o["par"][1] * u)
        if v % 2:
            return P.translate(dx, dy, inplace=o["inplace"]), "translate positional"
        return P.translate(dx=float(dx), dy=float(dy), inplace=o["inplace"]), "translate keywords"
    if op == "scale":
        P = objs[a - 1]
        fx, fy = o["par"]
        org = tuple(o["org"]) if fr.home else fr.pt(o["org"])
        if org == (0, 0) and v % 2:
            return P.scale(xfact=fx, yfact=fy, inplace=o["inplace"]), "scale default origin"
        return P.scale(float(fx), float(fy), origin=org, inplace=o["inplace"]), f"scale origin={org}"
    if op == "copy":
        P = objs[a - 1]
        form = v % 5
        if form == 0:
            return P.copy(), "copy()"
        if form == 1:
            return P.union(), "union() of nothing"
        if form == 2:
            return P.intersection(), "intersection() of nothing"
        if form == 3:
            return P.difference(), "difference() of nothing"
        return P.resample(False), "resample(False)"
    if op == "poke":
        P = objs[a - 1]
        arr = P.points
        arr += np.array(o["par"], dtype=float) * u
        return P, "points array written in place"
    if op == "mkdev":
        # the layer's coherence length is a free parameter of device construction (polygons, probe points and the
        # arguments of Device.translate / rotate / scale are all in length units, whatever xi is)
        layer = tdgl.Layer(coherence_length=heap.xi, london_lambda=2.0 * heap.xi, thickness=0.1)
        for i_, ob_ in enumerate(objs):       # names are the harness' own: unique, ...
            ob_.name = f"p{i_ + 1}"
        if heap.share_names and o["hs"]:      # ... except, in this mode, film and first hole of the device being built
            # legal: a hole may carry the film's name (a polygon derived by a set operation inherits its parent's name);
            # the shapes are always addressed through device.film / device.holes[i], never by name
            objs[o["hs"][0] - 1].name = objs[a - 1].name
        pr = o.get("probes") or []
        if pr:
            pp = fr.pts(np.array(pr, dtype=float) / 2)
            pp = pp if v % 2 else [tuple(map(float, xy)) for xy in pp]
            return (tdgl.Device("dev", layer=layer, film=objs[a - 1], holes=[objs[h - 1] for h in o["hs"]], probe_points=pp),
                    f"Device(film, holes, probe_points {o['pm']})")
        return tdgl.Device("dev", layer=layer, film=objs[a - 1], holes=[objs[h - 1] for h in o["hs"]]), "Device(film, holes)"
    D = devs[a - 1]
    if op == "devcopy":
        return D.copy(), "Device.copy()"
    org = tuple(o["org"]) if fr.home else fr.pt(o["org"])
    if op == "devtranslate":
        dx, dy = o["par"][0] * u, o["par"][1] * u
        return D.translate(dx, dy, inplace=o["inplace"]), "Device.translate"
    if op == "devrotate":
        if org == (0, 0) and v % 2:
            return D.rotate(90 * o["q"]), "Device.rotate default origin"
        return D.rotate(90 * o["q"], origin=org), f"Device.rotate origin={org}"
    if op == "devscale":
        fx, fy = o["par"]
        if org == (0, 0) and v % 2:
            return D.scale(xfact=fx, yfact=fy), "Device.scale default origin"
        return D.scale(xfact=fx, yfact=fy, origin=org), f"Device.scale origin={org}"
    raise ValueError(op)


def event_of(o):
    return {"op": o["op"], "kind": o["kind"], "a": 0 if o["op"] == "new" else o["a"], "box": o["a"] if o["op"] == "new" else 0,
            "b": o["b"], "q": o["q"], "parc": pair(*o["par"]), "orgc": pair(*o["org"]), "hs": list(o["hs"]),
            "pm": o.get("pm", "none"), "probes": [list(p) for p in o.get("probes", [])], "inplace": bool(o["inplace"])}


def replay_chain(tdgl, chain, H, variant):
    """Run one exported chain on real objects; returns the trace and a python-side diff against
    the exported expectation (diagnostics only; TLC decides)."""
    fr = frame_of(variant, about_origin=any(st["o"]["op"] == "new" and st["o"]["q"] for st in chain))
    xi = XIS[(variant // 13) % len(XIS)]
    heap = Heap(tdgl, H, fr, xi)
    heap.share_names = bool((variant // 5) % 2)
    ev, forms, diffs = [], [], []
    for n, st in enumerate(chain):
        o = st["o"]
        v = variant + 7 * n
        e = event_of(o)
        form = "?"
        try:
            r, form = apply_op(tdgl, heap, o, v)
            e["out"] = "ok"
            if o["op"] in ("mkdev", "devcopy", "devtranslate", "devrotate", "devscale"):
                e["res"] = heap.dev_id(r) if r is not None else 0
            else:
                e["res"] = heap.obj_id(r) if r is not None else 0
        except Exception as ex:  # an exception class is an observation
            e["out"] = type(ex).__name__
            e["res"] = 0
            e["msg"] = str(ex)[:120]
        e["objs"], e["devs"] = heap.snapshot()
        e["form"] = form
        ev.append(e)
        forms.append(form)
        exp = st.get("exp")
        if exp is not None:
            want = (o["out"], o["res"], exp["objs"], exp["devs"])
            got = (e["out"], e["res"], [{k: x[k] for k in ("rows", "ccw", "area", "bbox", "closed", "lead")} for x in e["objs"]], e["devs"])
            if json.dumps(want, sort_keys=True) != json.dumps(got, sort_keys=True):
                diffs.append({"step": n + 1, "form": form, "expected": {"out": want[0], "res": want[1], "objs": want[2], "devs": want[3]},
                              "observed": {"out": got[0], "res": got[1], "objs": got[2], "devs": got[3]}})
    return {"kind": "chain", "H": H, "ev": ev, "key": chain_key(chain), "variant": variant, "forms": forms, "pydiff": diffs[:1],
            "frame": fr.name, "xi": xi, "share_names": heap.share_names,
            "ops": [st["o"] for st in chain]}


def replay_chains(tdgl, args, tmp):
    """Worker entry point: args = {chains: [...], H, variants: [...]}"""
    out = []
    for chain, v in zip(args["chains"], args["variants"]):
        out.append(replay_chain(tdgl, chain, args["H"], v))
    return out


def replay_chains_to_file(tdgl, args, tmp):
    """Worker entry point for large batches: replays the chains (operations only), writes the stripped traces as one
    TLC batch file and returns only small per-trace metadata (the main process never holds the trace bodies; a
    rejected trace is re-recorded there from its chain and variant, which is deterministic)."""
    traces, meta = [], []
    for ops, v in zip(args["chains"], args["variants"]):
        t = replay_chain(tdgl, [{"o": o} for o in ops], args["H"], v)
        traces.append(strip_trace(t))
        meta.append({"key": t["key"], "forms": t["forms"], "n": len(t["ev"]), "frame": t["frame"], "xi": t["xi"], "share_names": t["share_names"],
                     "ops": [[e["op"], e["kind"], e["inplace"], e["out"]] for e in t["ev"]]})
    with open(args["out"], "w") as f:
        json.dump(traces, f)
    return {"kind": "chainfile", "file": args["out"], "first": args["first"], "meta": meta}


def strip_trace(t):
    """What TLC needs of a chain trace (smaller JSON)."""
    if t["kind"] != "chain":
        return {"kind": t["kind"], "ev": t["ev"]}
    keep = ("op", "kind", "a", "box", "b", "q", "parc", "orgc", "hs", "pm", "probes", "inplace", "out", "res", "objs", "devs")
    return {"kind": "chain", "ev": [{k: e[k] for k in keep} for e in t["ev"]]}


# ------------------------------------------------------------------ relations for shapes without a cell model

Q_AREA = 10 ** 6


def _hash_ints(arr):
    h = hashlib.sha256(np.ascontiguousarray(np.asarray(arr, dtype=float)).tobytes()).digest()
    return [int.from_bytes(h[k:k + 3], "big") for k in (0, 3, 6, 9)]


def _flags(p):
    pts = np.asarray(p.points)
    return {"rel": "flags", "closed": bool(np.max(np.abs(pts[0] - pts[-1])) <= 1e-12 * (1 + np.abs(pts).max())),
            "ccw": bool(signed_area(pts) > 0), "clause": "StoredClosedAndCCW"}


def _probes(rnd, polys, n, margin=1e-6):
    """Random probe points around the shapes, none within `margin` of any outline."""
    from shapely.geometry import Point

    xs, ys = [], []
    for p in polys:
        (a, b), (c, d) = p.bbox
        xs += [a, c]
        ys += [b, d]
    x0, x1, y0, y1 = min(xs), max(xs), min(ys), max(ys)
    mx, my = 0.15 * (x1 - x0) + 0.1, 0.15 * (y1 - y0) + 0.1
    rings = [p.polygon.exterior for p in polys]
    out = []
    while len(out) < n:
        q = (rnd.uniform(x0 - mx, x1 + mx), rnd.uniform(y0 - my, y1 + my))
        if all(r.distance(Point(q)) > margin for r in rings):
            out.append(q)
    return np.array(out)


def _bits(mask):
    return [bool(x) for x in np.asarray(mask)]


PLACES = [(0.0, 0.0), (0.0, 0.0), (400000.0, 250000.0), (-300000.0, 700000.0)]   # "any centre": also layout-style coordinates


def _shape(tdgl, rnd, place=(0.0, 0.0)):
    from tdgl.geometry import box, circle, ellipse

    kind = rnd.choice(["circle", "ellipse", "ellipse", "box"])
    c = (place[0] + round(rnd.uniform(-1.5, 1.5), 3), place[1] + round(rnd.uniform(-1.5, 1.5), 3))
    n = rnd.choice([7, 12, 25, 40, 100])
    if kind == "circle":
        pts = circle(round(rnd.uniform(0.4, 2.0), 3), points=n, center=c)
        desc = f"circle points={n} center={c}"
    elif kind == "ellipse":
        a, b, ang = round(rnd.uniform(0.5, 2.2), 3), round(rnd.uniform(0.4, 1.5), 3), rnd.choice([0, 17.0, 90, 133.3])
        pts = ellipse(a, b, points=n, center=c, angle=ang)
        desc = f"ellipse a={a} b={b} points={n} center={c} angle={ang}"
    else:
        w, h, ang = round(rnd.uniform(0.5, 3.0), 3), round(rnd.uniform(0.5, 3.0), 3), rnd.choice([0, 30.0, 45])
        n = max(n, 12)
        pts = box(w, h, points=n, center=c, angle=ang)
        desc = f"box w={w} h={h} points={n} center={c} angle={ang}"
    form = rnd.randrange(4)
    if form == 1:
        pts = pts[::-1]
    elif form == 2:
        pts = np.vstack([pts, pts[:1]])
    elif form == 3:
        pts = np.vstack([pts[::-1], pts[-1:]])
    return tdgl.Polygon("s", points=pts), desc + [" ccw open", " cw open", " ccw closed", " cw closed"][form]


def _origin(rnd, p):
    k = rnd.randrange(5)
    if k == 4:      # a point near the shape (matters for shapes far from (0, 0))
        (a, b), (c, d) = p.bbox
        o = (round((a + c) / 2 + rnd.uniform(-2, 2), 2), round((b + d) / 2 + rnd.uniform(-2, 2), 2))
        return o, np.array(o), o
    if k == 0:
        return (0.0, 0.0), np.array([0.0, 0.0]), None
    if k == 1:
        o = (round(rnd.uniform(-2, 2), 2), round(rnd.uniform(-2, 2), 2))
        return o, np.array(o), o
    if k == 2:
        (a, b), (c, d) = p.bbox
        return "center", np.array([(a + c) / 2, (b + d) / 2]), "center"
    c = p.polygon.centroid
    return "centroid", np.array([c.x, c.y]), "centroid"


def primitive_relations(tdgl, rnd, ev):
    """The geometry primitives' own arguments (angle, center, points) and the public helper geometry.rotate, related to
    an independent counter-clockwise rotation and to the Polygon-level operations:
        box(w, h, center=c, angle=t)  ==  Polygon(box(w, h)).translate(c).rotate(t)   as regions (same for ellipse),
        rotate(p, t) turns p counter-clockwise about (0, 0) (rotate([[1, 0]], 90) = [[0, 1]])."""
    from tdgl import geometry as G

    counts = collections.Counter()

    def ccw(p, deg):
        th = math.radians(deg)
        R = np.array([[math.cos(th), -math.sin(th)], [math.sin(th), math.cos(th)]])
        return np.asarray(p, dtype=float) @ R.T

    def q6(d):
        return [int(max(-10 ** 9, min(10 ** 9, round(v * 10 ** 6)))) for v in np.asarray(d, dtype=float).ravel()]

    # the helper itself: exact right angles and general angles
    for deg, p in [(90, [[1.0, 0.0]]), (90, [[0.0, 1.0]]), (180, [[1.0, 2.0]]), (-90, [[1.0, 0.0]]), (270, [[2.0, -1.0]]),
                   (rnd.choice([30, 45, 17.5, -63.0, 133.3, 200.0]), [[rnd.uniform(-3, 3), rnd.uniform(-3, 3)] for _ in range(4)])]:
        got = G.rotate(np.array(p), deg)
        ev.append({"rel": "zero", "x": q6(got - ccw(p, deg)), "tol": 2, "clause": "PointsMapWithShapes (geometry.rotate is counter-clockwise)",
                   "what": f"geometry.rotate({p}, {deg})"})
        counts["geometry.rotate"] += 1
    # the primitives
    for _ in range(3):
        kind = rnd.choice(["box", "ellipse"])
        deg = rnd.choice([90, 270, 30, 45, 60.0, -20.0, 133.3, 17.0, 180, 0])
        c = rnd.choice([(0, 0), (round(rnd.uniform(-2, 2), 2), round(rnd.uniform(-2, 2), 2))])
        n = rnd.choice([12, 20, 40, 101])
        if kind == "box":
            w, h = round(rnd.uniform(0.5, 4.0), 2), round(rnd.uniform(0.5, 4.0), 2)
            if rnd.random() < 0.15:
                h = w
            tilted, flat = G.box(w, h, points=n, center=c, angle=deg), G.box(w, h, points=n)
            what = f"box({w}, {h}, points={n}, center={c}, angle={deg})"
            asym = w != h
        else:
            a, b = round(rnd.uniform(0.5, 3.0), 2), round(rnd.uniform(0.4, 2.0), 2)
            tilted, flat = G.ellipse(a, b, points=n, center=c, angle=deg), G.ellipse(a, b, points=n)
            what = f"ellipse({a}, {b}, points={n}, center={c}, angle={deg})"
            asym = a != b
        # vertex-wise against an independent counter-clockwise rotation of the untilted, translated outline
        want = ccw(np.asarray(flat) + np.array(c, dtype=float), deg)
        ev.append({"rel": "zero", "x": q6(np.asarray(tilted) - want) if np.shape(tilted) == np.shape(want) else [10 ** 9], "tol": 2,
                   "clause": "PointsMapWithShapes (the angle argument turns counter-clockwise about (0,0) after centring)", "what": what})
        # as regions against the Polygon-level operations
        A = tdgl.Polygon("tilted", points=tilted)
        B = tdgl.Polygon("flat", points=flat).translate(c[0], c[1]).rotate(deg)
        pts = _probes(rnd, [A, B], 32)
        ev.append({"rel": "bits", "x": _bits(A.contains_points(pts)), "y": _bits(B.contains_points(pts)),
                   "clause": "PointsMapWithShapes (primitive with angle/center == Polygon.translate().rotate())", "what": what})
        ev.append({"rel": "area", "a0": int(round(B.area * Q_AREA)), "a1": int(round(A.area * Q_AREA)), "num": 1, "den": 1,
                   "clause": "AreaLaw (tilted primitive)", "what": what})
        ev.append(dict(_flags(A), what=what))
        if asym and deg % 180 != 0:
            counts[f"{kind} tilted (not a multiple of 180, {'w != h' if kind == 'box' else 'a != b'})"] += 1
        else:
            counts[f"{kind} other"] += 1
    # box(w, h, points=p, center=c) over aspect ratios up to 1000 and small p, against the harness' own rectangle
    for _ in range(3):
        short = rnd.choice([0.01, 0.02, 0.1, 0.5, 1.0])
        long_ = round(short * rnd.choice([1, 3, 10, 40, 100, 400, 1000]), 4)
        w, h = (short, long_) if rnd.random() < 0.5 else (long_, short)
        # points >= 8: the longer side then gets >= 2 points and the outline has its four corners; with 4..7 points the
        # unchanged primitive can degenerate (box(0.3, 0.1, points=4) returns 2 vertices) - observed, not part of this family
        p = rnd.choice([8, 9, 12, 20, 50, 101])
        c = np.array([round(rnd.uniform(-3, 3), 2), round(rnd.uniform(-3, 3), 2)])
        what = f"box({w}, {h}, points={p}, center={tuple(c)})"
        try:
            A = tdgl.Polygon("thin", points=G.box(w, h, points=p, center=tuple(c)))
        except Exception as ex:
            ev.append({"rel": "ident", "same": False, "expect": True, "clause": f"box primitive is a polygon ({type(ex).__name__})", "what": what})
            continue
        av = np.asarray(A.points)
        corners = c + np.array([(-w / 2, -h / 2), (w / 2, -h / 2), (w / 2, h / 2), (-w / 2, h / 2)])
        ev.append({"rel": "zero", "x": [int(min(10 ** 9, round(float(np.abs(av - k).max(axis=1).min()) / min(w, h) * 10 ** 6))) for k in corners], "tol": 2,
                   "clause": "PointsMapWithShapes (the four corners of box(w, h) are vertices)", "what": what})
        ev.append({"rel": "area", "a0": int(round(1.0 * Q_AREA * 100)), "a1": int(round(A.area / (w * h) * Q_AREA * 100)), "num": 1, "den": 1,
                   "clause": "AreaLaw (box(w, h) has area w*h)", "what": what})
        loc = np.array([[rnd.uniform(-0.75, 0.75), rnd.uniform(-0.75, 0.75)] for _ in range(40)])
        loc = loc[(np.abs(np.abs(loc[:, 0]) - 0.5) > 0.02) & (np.abs(np.abs(loc[:, 1]) - 0.5) > 0.02)]
        pts = c + loc * np.array([w, h])
        ev.append({"rel": "bits", "x": _bits((np.abs(loc[:, 0]) < 0.5) & (np.abs(loc[:, 1]) < 0.5)), "y": _bits(A.contains_points(pts)),
                   "clause": "PointsMapWithShapes (membership in box(w, h, center) is |x-x0|<w/2 and |y-y0|<h/2)", "what": what})
        ev.append(dict(_flags(A), what=what))
        counts["thin box (aspect >= 40)" if max(w, h) >= 40 * min(w, h) else "box vs own rectangle"] += 1
    # circle(r, center) is the ellipse with equal axes, moved to the centre
    r, c = round(rnd.uniform(0.4, 2.5), 2), (round(rnd.uniform(-2, 2), 2), round(rnd.uniform(-2, 2), 2))
    n = rnd.choice([8, 24, 100])
    ev.append({"rel": "zero", "x": q6(G.circle(r, points=n, center=c) - (G.ellipse(r, r, points=n) + np.array(c))), "tol": 2,
               "clause": "PointsMapWithShapes (circle center)", "what": f"circle({r}, points={n}, center={c})"})
    counts["circle"] += 1
    return counts


def relation_traces(tdgl, args, tmp):
    """Worker entry point: a batch of relation traces (seeds)."""
    return [relation_trace(tdgl, dict(seed=s, transforms=args.get("transforms", 3)), tmp) for s in args["seeds"]]


def relation_trace(tdgl, args, tmp):
    """One relation trace: a random shape, a transform (any angle / factors in halves / any origin),
    a copy that is mutated, a set operation with a second shape, a device with holes."""
    rnd = random.Random(args["seed"])
    ev = []
    place = rnd.choice(PLACES)
    P, desc = _shape(tdgl, rnd, place)
    ev.append(dict(_flags(P), what="new " + desc))
    steps = [desc]
    for _ in range(args.get("transforms", 3)):
        kind = rnd.choice(["rotate", "translate", "scale"])
        inplace = rnd.random() < 0.5
        pts = _probes(rnd, [P], 24)
        in0 = P.contains_points(pts)
        a0 = P.area
        before = _hash_ints(P.points)
        num, den = 1, 1
        if kind == "rotate":
            deg = rnd.choice([90, 180, -90, round(rnd.uniform(-360, 360), 2), round(rnd.uniform(0, 90), 3)])
            label, o, okw = _origin(rnd, P)
            th = math.radians(deg)
            R = np.array([[math.cos(th), -math.sin(th)], [math.sin(th), math.cos(th)]])
            mapped = (pts - o) @ R.T + o
            Q = P.rotate(deg, inplace=inplace) if okw is None else P.rotate(deg, origin=okw, inplace=inplace)
            what = f"rotate({deg}, origin={label}, inplace={inplace})"
        elif kind == "translate":
            dx, dy = round(rnd.uniform(-3, 3), 3), round(rnd.uniform(-3, 3), 3)
            mapped = pts + np.array([dx, dy])
            Q = P.translate(dx, dy, inplace=inplace)
            what = f"translate({dx}, {dy}, inplace={inplace})"
        else:
            fx, fy = rnd.choice([-2, -1.5, -1, -0.5, 0.5, 1, 1.5, 2]), rnd.choice([-2, -1.5, -1, -0.5, 0.5, 1, 1.5, 2])
            label, o, okw = _origin(rnd, P)
            mapped = (pts - o) * np.array([fx, fy]) + o
            Q = P.scale(xfact=fx, yfact=fy, inplace=inplace) if okw is None else P.scale(xfact=fx, yfact=fy, origin=okw, inplace=inplace)
            num, den = int(round(abs(2 * fx * 2 * fy))), 4
            what = f"scale({fx}, {fy}, origin={label}, inplace={inplace})"
        steps.append(what)
        ev.append({"rel": "area", "a0": int(round(a0 * Q_AREA)), "a1": int(round(Q.area * Q_AREA)), "num": num, "den": den,
                   "clause": "AreaLaw", "what": what})
        ev.append(dict(_flags(Q), what=what))
        ev.append({"rel": "bits", "x": _bits(in0), "y": _bits(Q.contains_points(mapped)), "clause": "PointsMapWithShapes", "what": what})
        ev.append({"rel": "ident", "same": Q is P, "expect": inplace, "clause": "InplaceReturnsSelf", "what": what})
        if not inplace:
            ev.append({"rel": "same", "x": before, "y": _hash_ints(P.points), "clause": "NonInplaceNeverMutates", "what": what})
        elif kind == "translate" and (dx or dy):      # (a rotation or reflection may map a symmetric outline onto itself)
            ev.append({"rel": "moved", "x": before, "y": _hash_ints(P.points), "clause": "non-vacuity (in place moved the shape)", "what": what})
        P = Q
        if P.area > 60 or max(P.extents) > 40:   # keep quantised areas far below 2^31
            P = P.scale(0.25, 0.25, origin="center")
    # a copy is mutated; the original must not move
    C = P.copy()
    before = _hash_ints(P.points)
    cb = _hash_ints(C.points)
    ev.append({"rel": "ident", "same": C is P, "expect": False, "clause": "CopiesDoNotAlias", "what": "copy()"})
    ev.append({"rel": "ident", "same": bool(np.shares_memory(C.points, P.points)), "expect": False, "clause": "CopiesDoNotAlias", "what": "copy() shares no vertex buffer"})
    ev.append({"rel": "same", "x": cb, "y": before, "clause": "CopiesDoNotAlias", "what": "copy() has the same vertices"})
    C.translate(0.37, -0.21, inplace=True)
    arr = C.points
    arr += 0.125
    ev.append({"rel": "same", "x": before, "y": _hash_ints(P.points), "clause": "CopiesDoNotAlias", "what": "mutating the copy"})
    ev.append({"rel": "moved", "x": cb, "y": _hash_ints(C.points), "clause": "non-vacuity (the copy moved)", "what": "mutating the copy"})
    # set operations with a second shape, point-wise at probes away from the three outlines
    S, sdesc = _shape(tdgl, rnd)
    (a, b), (c, d) = P.bbox
    (a2, b2), (c2, d2) = S.bbox
    S = S.translate((a + c) / 2 - (a2 + c2) / 2 + 0.3 * rnd.uniform(-1, 1) * (c - a), (b + d) / 2 - (b2 + d2) / 2 + 0.3 * rnd.uniform(-1, 1) * (d - b))
    nset = 0
    surv_total = [0]
    for kind, opr in (("union", "+"), ("intersection", "*"), ("difference", "-")):
        form = rnd.randrange(3)
        pb, sb = _hash_ints(P.points), _hash_ints(S.points)
        try:
            if form == 0:
                R_ = getattr(P, kind)(S)
            elif form == 1:
                R_ = P + S if opr == "+" else P * S if opr == "*" else P - S
            else:
                R_ = getattr(tdgl.Polygon, "from_" + kind)([P.points, S])
        except ValueError:
            continue  # not a single simple polygon: the cell model covers the error semantics
        nset += 1
        pts = _probes(rnd, [P, S, R_], 32)
        what = f"{kind} via {['method', 'operator ' + opr, 'classmethod'][form]} with {sdesc}"
        ev.append({"rel": "setop", "kind": kind, "a": _bits(P.contains_points(pts)), "b": _bits(S.contains_points(pts)),
                   "r": _bits(R_.contains_points(pts)), "clause": "SetOpsArePointwise", "what": what})
        ev.append(dict(_flags(R_), what=what))
        # operand vertices that lie strictly on the result's outline (strictly outside / inside the other operand) are
        # vertices of the result, unmoved (the operands sit at off-grid coordinates)
        from shapely.geometry import Point as _Pt

        rv = np.asarray(R_.points)
        keepP = {"union": False, "intersection": True, "difference": False}[kind]     # vertex of P survives iff inside S == keepP
        keepS = {"union": False, "intersection": True, "difference": True}[kind]      # vertex of S survives iff inside P == keepS
        devs_q, nsurv = [], 0
        for V, O, keep in ((np.asarray(P.points)[:-1], S, keepP), (np.asarray(S.points)[:-1], P, keepS)):
            ring, poly = O.polygon.exterior, O.polygon
            for vtx in V:
                pt = _Pt(vtx)
                if ring.distance(pt) > 1e-6 and poly.contains(pt) == keep:
                    dmin = float(np.abs(rv - vtx).max(axis=1).min())
                    devs_q.append(int(min(10 ** 9, round(dmin * 10 ** 9))))
                    nsurv += 1
        ev.append({"rel": "zero", "x": devs_q, "tol": 1, "clause": "SetOpsArePointwise (operand vertices on the result's outline survive unmoved)",
                   "what": what})
        surv_total[0] += nsurv
        ev.append({"rel": "same", "x": pb + sb, "y": _hash_ints(P.points) + _hash_ints(S.points), "clause": "NonInplaceNeverMutates", "what": what})
        ev.append({"rel": "ident", "same": (R_ is P) or (R_ is S), "expect": False, "clause": "NonInplaceNeverMutates", "what": what})
    # device = film minus holes (holes may stick out of the film; membership is still film and not holes)
    (a, b), (c, d) = P.bbox
    w, h = c - a, d - b
    from tdgl.geometry import circle

    holes = []
    for k in range(rnd.choice([1, 2, 3])):
        cx, cy = rnd.uniform(a + 0.1 * w, c - 0.1 * w), rnd.uniform(b + 0.1 * h, d - 0.1 * h)
        pts = circle(0.12 * min(w, h) * rnd.uniform(0.5, 1.5), points=rnd.choice([6, 12, 20]), center=(cx, cy))
        holes.append(tdgl.Polygon(f"h{k}", points=pts[::-1] if k % 2 else pts))
    film = P.copy().set_name("film")
    xi = rnd.choice(XIS + [0.3, 7.5])
    layer = tdgl.Layer(coherence_length=xi, london_lambda=2.0 * xi, thickness=0.1)
    # two terminals; polygon names may coincide ACROSS kinds (film/hole, film/terminal, hole/terminal): a polygon derived by a
    # set operation inherits its parent's name, and only holes among holes / terminals among terminals must differ
    from tdgl.geometry import box as _gbox

    terms = [tdgl.Polygon("t0", points=_gbox(0.3 * w, 0.1 * h, points=12, center=((a + c) / 2, d))),
             tdgl.Polygon("t1", points=_gbox(0.1 * w, 0.3 * h, points=12, center=(a, (b + d) / 2)))]
    names = rnd.choice(["distinct", "film/hole", "film/terminal", "hole/terminal"])
    if names == "film/hole":
        holes[0].name = film.name
    elif names == "film/terminal":
        terms[0].name = film.name
    elif names == "hole/terminal":
        terms[1].name = holes[0].name
    dev = tdgl.Device("d", layer=layer, film=film, holes=holes, terminals=terms)

    def parts(D):       # the shapes of a device, addressed through device.film / holes[i] / terminals[i]
        return [D.film] + list(D.holes) + list(D.terminals)
    pts = _probes(rnd, [film] + holes, 48)
    what = f"Device(film, {len(holes)} holes)"
    for D, w2 in ((dev, what), (dev.copy(), what + ".copy()")):
        ev.append({"rel": "dev", "film": _bits(D.film.contains_points(pts)), "holes": [_bits(hh.contains_points(pts)) for hh in D.holes],
                   "dev": _bits(D.contains_points(pts)), "clause": "DeviceIsFilmMinusHoles", "what": w2})
    dx, dy = 0.7, -0.4
    D2 = dev.translate(dx, dy)
    ev.append({"rel": "dev", "film": _bits(dev.film.contains_points(pts)), "holes": [_bits(hh.contains_points(pts)) for hh in dev.holes],
               "dev": _bits(D2.contains_points(pts + np.array([dx, dy]))), "clause": "DeviceIsFilmMinusHoles/PointsMapWithShapes",
               "what": what + ".translate"})
    ev.append({"rel": "ident", "same": any(x is y for x in D2.polygons for y in dev.polygons), "expect": False,
               "clause": "CopiesDoNotAlias", "what": "Device.translate(inplace=False) shares no polygon"})
    # vertex-wise against the harness' own numbers: every polygon of the device moves by exactly (dx, dy) length units,
    # whatever the coherence length; in place and not
    D3 = dev.copy()
    r3 = D3.translate(dx, dy, inplace=True)
    for Dt, w3 in ((D2, f"Device(xi={xi}).translate({dx}, {dy})"), (D3, f"Device(xi={xi}).translate({dx}, {dy}, inplace=True)")):
        dq = []
        for new, old in zip(parts(Dt), parts(dev)):
            d = np.asarray(new.points) - (np.asarray(old.points) + np.array([dx, dy])) if np.shape(new.points) == np.shape(old.points) else np.array([1e3])
            dq += [int(max(-10 ** 9, min(10 ** 9, round(v * 10 ** 6)))) for v in (float(np.abs(d).max()),)]
        ev.append({"rel": "zero", "x": dq, "tol": 5, "clause": "PointsMapWithShapes (Device.translate moves film, every hole and every terminal by (dx, dy) in length units)",
                   "what": w3 + f" names {names}"})
    # rotate / scale: every shape of the device (film, holes[i], terminals[i]) is the image of the original one
    (fa, fb), (fc, fd) = film.bbox
    org2 = (round((fa + fc) / 2 + 0.4, 3), round((fb + fd) / 2 - 0.3, 3))
    o2 = np.array(org2)
    deg2 = rnd.choice([90, 33.0, -120.5])
    th2 = math.radians(deg2)
    R2 = np.array([[math.cos(th2), -math.sin(th2)], [math.sin(th2), math.cos(th2)]])
    fx2, fy2 = rnd.choice([(-1, 1), (2, 0.5), (1.5, 1.5), (-0.5, -2)])
    for Dt, mp, w3 in ((dev.rotate(deg2, origin=org2), lambda q_: (q_ - o2) @ R2.T + o2, f"Device.rotate({deg2}, origin={org2})"),
                       (dev.scale(xfact=fx2, yfact=fy2, origin=org2), lambda q_: (q_ - o2) * np.array([fx2, fy2]) + o2, f"Device.scale({fx2}, {fy2}, origin={org2})")):
        dq = []
        for new, old in zip(parts(Dt), parts(dev)):
            want, got = mp(np.asarray(old.points)[:-1]), np.asarray(new.points)
            dmax = max(float(np.abs(got - v_).max(axis=1).min()) for v_ in want)      # every mapped vertex is a vertex of the new shape
            dq.append(int(max(-10 ** 9, min(10 ** 9, round(dmax * 10 ** 6)))))
        ev.append({"rel": "zero", "x": dq, "tol": 5, "clause": "PointsMapWithShapes (film, every hole and every terminal of a device are transformed)",
                   "what": w3 + f" names {names}"})
    ev.append({"rel": "ident", "same": r3 is D3, "expect": True, "clause": "InplaceReturnsSelf", "what": "Device.translate(inplace=True)"})
    nprim = primitive_relations(tdgl, rnd, ev)
    # probe points of a device travel with its film and holes (any angle, any origin, any place)
    inside = pts[dev.contains_points(pts)]
    nprobe = 0
    rel_xi = xi
    if len(inside) >= 2:
        pp = inside[:3]
        devp = tdgl.Device("dp", layer=layer, film=film.copy(), holes=[hh.copy() for hh in holes], probe_points=pp)
        (a, b), (c, d) = film.bbox
        org = rnd.choice([(0.0, 0.0), (round((a + c) / 2, 3), round((b + d) / 2, 3)), (round(a + rnd.uniform(-3, 3), 2), round(d + rnd.uniform(-3, 3), 2))])
        o = np.array(org)
        deg = rnd.choice([90, -90, 180, round(rnd.uniform(-180, 180), 2)])
        th = math.radians(deg)
        R = np.array([[math.cos(th), -math.sin(th)], [math.sin(th), math.cos(th)]])
        fx, fy = rnd.choice([-2, -1, -0.5, 0.5, 1.5, 2]), rnd.choice([-1, 0.5, 1, 2])
        sx, sy = round(rnd.uniform(-3, 3), 2), round(rnd.uniform(-3, 3), 2)
        cases = [(f"Device.rotate({deg}, origin={org})", lambda: devp.rotate(deg, origin=org), (pp - o) @ R.T + o),
                 (f"Device.scale({fx}, {fy}, origin={org})", lambda: devp.scale(xfact=fx, yfact=fy, origin=org), (pp - o) * np.array([fx, fy]) + o),
                 (f"Device.translate({sx}, {sy})", lambda: devp.translate(sx, sy), pp + np.array([sx, sy])),
                 ("Device.copy()", lambda: devp.copy(), pp)]
        if org == (0.0, 0.0):
            cases.append((f"Device.rotate({deg}) default origin", lambda: devp.rotate(deg), pp @ R.T))
        for w3, f, want in cases:
            D3 = f()
            got = np.atleast_2d(np.asarray(D3.probe_points, dtype=float))
            dev_q = [int(max(-10 ** 9, min(10 ** 9, round(v * 10 ** 6)))) for v in (got - want).ravel()] if got.shape == want.shape else [10 ** 9]
            ev.append({"rel": "zero", "x": dev_q, "tol": 5, "clause": "PointsMapWithShapes (probe points of a device)", "what": w3})
            ev.append({"rel": "bits", "x": [True] * len(got), "y": _bits(D3.contains_points(got)),
                       "clause": "PointsMapWithShapes (probe points stay inside the device)", "what": w3})
            nprobe += 1
        ev.append({"rel": "same", "x": _hash_ints(pp), "y": _hash_ints(devp.probe_points), "clause": "NonInplaceNeverMutates (probe points)",
                   "what": "non-in-place device transforms"})
    return {"kind": "rel", "ev": ev, "key": f"rel seed={args['seed']} place={place}: " + " ; ".join(steps), "nset": nset, "seed": args["seed"],
            "transforms": args.get("transforms", 3), "nprobe": nprobe, "place": list(place), "nprim": dict(nprim), "xi": rel_xi, "names": names, "nsurv": surv_total[0]}
