"""Ill-posed inputs for C19: each instance is built and solved with the real API inside a
sandbox; the trace records in which phase the problem was rejected (or that it was not),
whether DataHandler.__enter__ was ever called, and the file-system state afterwards."""
from __future__ import annotations

import os
import shutil
import tempfile
from pathlib import Path

import numpy as np

from . import core, devices
from .runsim import BOT, FILEMAP, FOREIGN_BYTES, fs_state, read_frames

MAGS = [1.0, 1e-3, 1e-6]
CLASSES = ["currents", "currents_t", "epsilon", "options", "options_reused", "terminal", "seed", "ashape", "polygon", "device"]


def _missing(mod):
    import importlib.util
    try:
        return importlib.util.find_spec(mod) is None
    except (ImportError, ValueError):
        return True


# inconsistent / unusable solver options.  `mag` scales the first two; the last four are ill-posed only where the
# optional back end is not installed (they are dropped from the matrix where it is)
BAD_OPTIONS = [lambda mag: dict(dt_init=0.1 * (1 + mag), dt_max=0.1), lambda mag: dict(terminal_psi=1.0 + mag),
               lambda mag: dict(adaptive_time_step_multiplier=1.0), lambda mag: dict(screening_step_drag=0.0),
               lambda mag: dict(screening_tolerance=0.0), lambda mag: dict(sparse_solver="no-such-solver"),
               lambda mag: dict(screening_step_size=0.0), lambda mag: dict(screening_step_drag=1.5),
               lambda mag: dict(adaptive_time_step_multiplier=0.0),
               lambda mag: dict(terminal_psi=-1.5), lambda mag: dict(terminal_psi=0.8 + 0.8j),
               lambda mag: dict(screening_tolerance=-1e-3), lambda mag: dict(screening_step_size=-0.1),
               lambda mag: dict(adaptive_time_step_multiplier=-0.25),
               lambda mag: dict(sparse_solver="cupy"),                       # needs gpu=True: two options that contradict each other
               lambda mag: dict(gpu=True), lambda mag: dict(sparse_solver="umfpack"), lambda mag: dict(sparse_solver="pardiso"),
               lambda mag: dict(sparse_solver="cupy", gpu=True)]
SEED_DIFFS = ["fewer-terminals", "no-terminals", "fewer-holes", "one-more-hole", "layer", "name", "probe-points", "other-kind",
              # history on one device object: the seed is computed on the very device that is simulated afterwards, and a layer
              # parameter of that device is edited IN PLACE in between (the seed belongs to a different physical device)
              "layer-edited-in-place:london_lambda", "layer-edited-in-place:thickness", "layer-edited-in-place:coherence_length",
              # the same REGION described by another vertex array (finer sampling; same vertices starting elsewhere): another
              # mesh, so the seed's arrays belong to other sites
              "film-resampled", "film-rolled",
              # the SAME device definition (every polygon, the layer, the name, the probe points are equal), another MESH: the
              # seed's arrays are indexed by the sites and edges of a mesh that is not the one being simulated.
              #   remeshed:<what>                    the seed's device is a separate object, meshed differently before the seed is computed
              #   remeshed-in-place:<what>           ONE device object: the seed is computed on it, then it is meshed again and simulated
              #   seed-device-remeshed-in-place:<w>  the Device object the seed itself holds is meshed again and simulated (seed.device is device)
              # <what>: max_edge_length / min_points (another number of sites); smooth=N (the same triangulation relaxed further:
              # same number of sites, other coordinates); renumbered (the same sites and triangles, listed in another order)
              "remeshed:max_edge_length", "remeshed:min_points", "remeshed:smooth=10", "remeshed:smooth=1", "remeshed:renumbered",
              "remeshed-in-place:max_edge_length", "remeshed-in-place:smooth=10", "seed-device-remeshed-in-place:max_edge_length"]
MESH_HISTORIES = ("remeshed", "remeshed-in-place", "seed-device-remeshed-in-place")
# well-posed controls (class "none"): no seed; a seed computed on the simulated Device object itself; a seed computed on a
# separately built equal device meshed with the same arguments; the seed of the first kind saved, loaded from its file and
# resumed on the device stored in that file.  None of them may be rejected
CONTROLS = ["no-seed", "seed:same-object", "seed:equal-device-same-mesh", "seed:loaded-from-file"]


def seed_device(tdgl, dev, how):
    """A meshed device equal to `dev` except in one respect."""
    from tdgl.geometry import circle
    # nothing is shared with the (cached) device `dev`: the caller may edit the result in place
    kw = dict(layer=dev.layer.copy(), film=dev.film.copy(), holes=[h.copy() for h in dev.holes], terminals=[t.copy() for t in dev.terminals],
              probe_points=dev.probe_points, length_units=dev.length_units)
    name = dev.name
    if how == "same":
        pass
    elif how == "fewer-terminals":
        kw["terminals"] = kw["terminals"][:-1] if len(kw["terminals"]) > 2 else []
    elif how == "no-terminals":
        kw["terminals"] = []
    elif how == "fewer-holes":
        if not kw["holes"]:
            how = "one-more-hole"
        else:
            kw["holes"] = kw["holes"][:-1]
    if how == "one-more-hole":
        kw["holes"] = kw["holes"] + [tdgl.Polygon("extra", points=circle(0.3, points=12, center=(-1.0, -0.7)))]
    elif how == "layer":
        kw["layer"] = tdgl.Layer(coherence_length=0.5, london_lambda=2.0, thickness=0.1, gamma=10.0)
    elif how == "name":
        name = dev.name + "_b"
    elif how == "probe-points":
        kw["probe_points"] = [(-1.0, 0.5), (1.0, -0.5)]
    elif how == "film-resampled":
        kw["film"] = tdgl.Polygon(dev.film.name, points=dev.film.resample(2 * len(dev.film.points) + 3).points)
    elif how == "film-rolled":
        pts = np.asarray(dev.film.points)[:-1]
        kw["film"] = tdgl.Polygon(dev.film.name, points=np.roll(pts, 7, axis=0))
    elif how == "other-kind":
        return devices.make(tdgl, "bar" if dev.name != "bar" else "barhole", probes=2)
    d = tdgl.Device(name, **kw)
    d.make_mesh(max_edge_length=0.8 * (0.5 if how == "layer" else 1.0), smooth=0)
    return d


def remesh(tdgl, d, what):
    """Mesh the device `d` again, differently from devices.make / seed_device (max_edge_length=0.8, smooth=0).
    (The values are ones for which the package can mesh and simulate all three devices: on `barhole`, min_points = 2n gives
    "Malformed Voronoi cell" and smooth = 3 or 40 a singular operator; the check's guard reports a seed that was never made.)"""
    if what == "max_edge_length":
        d.make_mesh(max_edge_length=0.5, smooth=0)
    elif what == "min_points":
        d.make_mesh(max_edge_length=0.8, min_points=3 * len(d.mesh.sites), smooth=0)
    elif what.startswith("smooth="):
        d.make_mesh(max_edge_length=0.8, smooth=int(what.split("=")[1]))
    elif what == "renumbered":
        # the same sites and the same triangles, numbered in the opposite order
        from tdgl.finite_volume.mesh import Mesh
        sites, elements = np.array(d.mesh.sites), np.array(d.mesh.elements)
        n = len(sites)
        d.mesh = Mesh.from_triangulation(sites[::-1].copy(), (n - 1 - elements).copy())
    else:
        raise core.MachineryFailure(f"C19: unknown re-meshing {what!r}")


def mesh_arrays(d):
    """Raw copies of the site coordinates and triangles of the mesh a device holds NOW."""
    return np.array(d.mesh.sites, dtype=float), np.array(d.mesh.elements, dtype=np.int64)


def mesh_facts(seed_arrays, dev_arrays, npsi):
    """What the harness itself can say about two meshes from their raw arrays (never Device.__eq__)."""
    (s_sites, s_el), (d_sites, d_el) = seed_arrays, dev_arrays
    same_count = s_sites.shape == d_sites.shape
    same_sites = bool(same_count and np.array_equal(s_sites, d_sites))
    same_el = bool(s_el.shape == d_el.shape and np.array_equal(s_el, d_el))
    return {"seed_sites": int(len(s_sites)), "dev_sites": int(len(d_sites)), "seed_psi_len": int(npsi), "same_count": bool(same_count),
            "same_sites": same_sites, "same_elements": same_el,
            "max_shift": float(np.abs(s_sites - d_sites).max()) if same_count else None}


def seed_currents(d):
    names = [t.name for t in d.terminals]
    if len(names) < 2:
        return None
    cur = {n: 0.0 for n in names}
    cur[names[0]], cur[names[1]] = 1.0, -1.0
    return cur


ENV_DEPENDENT = {15: "cupy", 16: "scikits.umfpack", 17: "pypardiso", 18: "cupy"}


def matrix(ctx):
    out = []
    devs = ["bar", "barhole", "tee"]
    for cls in CLASSES:
        for d in devs:
            for mag in MAGS:
                for outm in ("temp", "path"):
                    variants = {"options": len(BAD_OPTIONS), "options_reused": len(BAD_OPTIONS), "polygon": 9, "device": 12, "seed": len(SEED_DIFFS), "epsilon": 3, "currents_t": 2, "terminal": 8,
                                "ashape": 16}.get(cls, 1)
                    for v in range(variants):
                        if cls in ("options", "options_reused", "polygon", "device", "terminal", "seed", "ashape") and mag != 1.0 \
                                and not (cls in ("options", "options_reused") and v in (0, 1)) and not (cls == "polygon" and v >= 3) \
                                and not (cls == "seed" and 8 <= v <= 10):
                            continue
                        if cls in ("options", "options_reused") and v in ENV_DEPENDENT and not _missing(ENV_DEPENDENT[v]):
                            continue            # that back end is installed here: the options are usable
                        out.append(dict(cls=cls, dev=d, mag=mag, out=outm, variant=v, **({"how": SEED_DIFFS[v]} if cls == "seed" else {})))
    # well-posed controls: the same pipeline must NOT reject them (and then files do appear)
    for d in devs:
        for outm in ("temp", "path"):
            for v, how in enumerate(CONTROLS):
                out.append(dict(cls="none", dev=d, mag=0.0, out=outm, variant=v, **({"how": how} if v else {})))
    if ctx.quick:
        import random
        rnd = random.Random(ctx.seed)
        keep = [p for p in out if p["dev"] == "bar" or p["cls"] in ("none", "seed")]
        rest = [p for p in out if p not in keep]
        rnd.shuffle(rest)
        out = keep + rest[:40]
    return out


def illposed_run(tdgl, p, base_tmp=None):
    from tdgl.geometry import box, circle
    from tdgl.solver import runner as runner_mod
    from tdgl.solver.solver import TDGLSolver

    cls, mag, v = p["cls"], p["mag"], p["variant"]
    out_mode = p["out"]
    sandbox = Path(tempfile.mkdtemp(prefix="bad", dir=base_tmp))
    tempd = sandbox / "tmpd"
    tempd.mkdir()
    events = []
    DH = runner_mod.DataHandler
    orig_enter, orig_exit = DH.__enter__, DH.__exit__
    entered = {"n": 0}

    def w_enter(self):
        entered["n"] += 1
        r = orig_enter(self)
        name = os.path.basename(self.output_path or "")
        serial = {"out.h5": 0, "out-1.h5": 1, "out-2.h5": 2, "out-3.h5": 3, "output.h5": 0}.get(name, BOT)
        events.append({"ev": "open", "serial": serial, "fs": fs_state(sandbox, tempd, out_mode, [])})
        return r

    def w_exit(self, et, ev_, tb):
        try:
            frames = read_frames(self.output_file, 1, {})
        except Exception:
            frames = []
        try:
            return orig_exit(self, et, ev_, tb)
        finally:
            events.append({"ev": "close", "fs": fs_state(sandbox, tempd, out_mode, []), "nframes": len(frames)})

    cwd = os.getcwd()
    old_tempdir = tempfile.tempdir
    phase = "build"
    result, exc = "pending", ""
    mesh_info = None
    try:
        os.chdir(sandbox)
        tempfile.tempdir = str(tempd)
        DH.__enter__, DH.__exit__ = w_enter, w_exit
        try:
            # ---------------- build phase
            dev = devices.make(tdgl, p["dev"], probes=2)
            kw = dict(solve_time=0.05, dt_init=2.0 ** -6, dt_max=0.1, save_every=2, progress_interval=10 ** 9,
                      pause_on_interrupt=False, output_file=("out.h5" if out_mode == "path" else None),
                      field_units="mT", current_units="uA")
            solve_kw = dict(applied_vector_potential=0.1, terminal_currents=devices.balanced_currents(p["dev"], 1.0))
            seed = None
            if cls == "currents":
                cur = dict(devices.balanced_currents(p["dev"], 1.0))
                cur["source"] = cur["source"] * (1 + mag)
                solve_kw["terminal_currents"] = cur
            elif cls == "currents_t":
                base = devices.balanced_currents(p["dev"], 1.0)
                t0 = [0.0, 0.02][v]

                def cur_t(t, base=base, mag=mag, t0=t0):
                    c = dict(base)
                    if t >= t0:
                        c["drain"] = c["drain"] * (1 + mag)
                    return c
                solve_kw["terminal_currents"] = cur_t
            elif cls == "epsilon":
                if v == 0:
                    solve_kw["disorder_epsilon"] = 1.0 + mag
                elif v == 1:
                    solve_kw["disorder_epsilon"] = lambda r, mag=mag: 1.0 + (mag if r[0] > 0.5 else -0.5)
                else:
                    def eps_t(r, *, t, mag=mag):
                        return 1.0 + mag
                    solve_kw["disorder_epsilon"] = eps_t
            elif cls in ("options", "options_reused"):
                bad = BAD_OPTIONS[v](mag)
                if cls == "options":
                    kw.update(bad)
                else:
                    # history on one options object: it is valid, validated and used once (also through a
                    # constructed solver), copied/unpickled, and only THEN made inconsistent
                    reused = bad
            elif cls == "terminal":
                # a terminal that touches no boundary: strictly inside the film, or outside it — whatever the
                # currents say about it (balanced pair, None, omitted, explicit zero, callable)
                layer = dev.layer
                film = tdgl.Polygon("film", points=box(5, 3, points=48))
                stray = (tdgl.Polygon("stray", points=box(0.3, 0.3, center=(0.4, 0.2))) if v % 2 == 0
                         else tdgl.Polygon("stray", points=box(0.5, 0.5, center=(6.0, 4.0))))       # outside the film
                terms = [tdgl.Polygon("source", points=box(0.1, 3, center=(-2.5, 0))),
                         tdgl.Polygon("drain", points=box(0.1, 3, center=(2.5, 0))), stray]
                if v // 2 == 0:
                    terms = [terms[0], stray]
                dev = tdgl.Device("badterm", layer=layer, film=film, terminals=terms, probe_points=[(-1.5, 0), (1.5, 0)])
                dev.make_mesh(max_edge_length=0.8)
                solve_kw["terminal_currents"] = [{"source": 1.0, "stray": -1.0}, None, {"source": 1.0, "drain": -1.0},
                                                 {"source": 1.0, "drain": -1.0, "stray": 0.0}][v // 2]
                if v // 2 == 3:
                    cur = dict(solve_kw["terminal_currents"])
                    solve_kw["terminal_currents"] = lambda t, cur=cur: dict(cur)
            elif cls == "seed":
                # a seed solution from a different device.  The other device differs from the simulated one in exactly ONE
                # respect (everything else — name, layer, film, probe points, units — is equal): fewer holes/terminals (its
                # polygons are a subset), no terminal at all, one more hole, another layer, another name, other probe points
                how = SEED_DIFFS[v % len(SEED_DIFFS)]
                edit = how.split(":")[1] if how.startswith("layer-edited-in-place") else None
                history, _, what = how.partition(":")
                mesh_how = what if history in MESH_HISTORIES else None
                other = seed_device(tdgl, dev, "same" if (edit or mesh_how) else how)
                if history == "remeshed":
                    remesh(tdgl, other, mesh_how)
                seed_arrays = mesh_arrays(other)                     # the mesh the seed is computed on, as raw arrays
                o2 = tdgl.SolverOptions(**dict(kw, output_file=None))
                tempfile.tempdir = old_tempdir
                seed_dir = tempfile.mkdtemp(prefix="seed", dir=base_tmp)
                try:
                    os.chdir(seed_dir)
                    o2.output_file = "seed.h5"
                    DH.__enter__, DH.__exit__ = orig_enter, orig_exit
                    seed = tdgl.solve(other, o2, applied_vector_potential=0.1,
                                      terminal_currents=seed_currents(other))
                    # independent of Device.__eq__ (the code under test): the two devices differ in a respect we can name
                    sig = lambda d: (d.name, len(d.holes), len(d.terminals), float(d.layer.coherence_length),
                                     None if d.probe_points is None else np.asarray(d.probe_points).round(9).tolist(),
                                     np.asarray(d.film.points).round(9).tolist())
                    if edit:
                        # the difference is made by the harness itself, after the seed was computed (small and large edits)
                        factor = {1.0: 2.0, 1e-3: 1.001, 1e-6: 1.000001}.get(mag, 2.0)
                        setattr(other.layer, edit, getattr(other.layer, edit) * factor)
                        if edit == "coherence_length":
                            other.make_mesh(max_edge_length=0.8 * factor, smooth=0)
                        dev = other
                        solve_kw["terminal_currents"] = seed_currents(other)
                    elif mesh_how:
                        # same device definition, another mesh.  The guard is evaluated by the check from these facts
                        # (raw arrays copied by the harness when the seed was computed and when the solver is called)
                        if history == "remeshed-in-place":
                            remesh(tdgl, other, mesh_how)
                            dev = other
                        elif history == "seed-device-remeshed-in-place":
                            remesh(tdgl, seed.device, mesh_how)
                            dev = seed.device
                        if dev is not devices.make(tdgl, p["dev"], probes=2):
                            solve_kw["terminal_currents"] = seed_currents(dev)
                        mesh_info = mesh_facts(seed_arrays, mesh_arrays(dev), len(np.asarray(seed.tdgl_data.psi)))
                        mesh_info.update(how=how, same_definition=bool(sig(seed.device) == sig(dev)),
                                         seed_device_is_device=bool(seed.device is dev))
                        # the problem is ill-posed BECAUSE of the seed: without it the (re-meshed) device is accepted
                        try:
                            TDGLSolver(dev, tdgl.SolverOptions(**kw), **solve_kw)
                            mesh_info["accepted_without_seed"] = True
                        except Exception as e0:
                            mesh_info["accepted_without_seed"] = False
                            mesh_info["without_seed_exc"] = type(e0).__name__ + ": " + str(e0)[:120]
                    elif sig(seed.device) == sig(dev):
                        raise core.MachineryFailure(f"C19: the seed device ({how}) does not differ from the simulated device (vacuous)")
                finally:
                    DH.__enter__, DH.__exit__ = w_enter, w_exit
                    os.chdir(sandbox)
                    tempfile.tempdir = str(tempd)
                solve_kw["seed_solution"] = seed
            elif cls == "none" and v:
                # well-posed controls with a seed solution of the SAME mesh: they must run
                how = CONTROLS[v]
                own = seed_device(tdgl, dev, "same")                 # the device that is simulated (never the cached one)
                src = own if how != "seed:equal-device-same-mesh" else seed_device(tdgl, dev, "same")
                seed_arrays = mesh_arrays(src)
                tempfile.tempdir = old_tempdir
                seed_dir = tempfile.mkdtemp(prefix="seed", dir=base_tmp)
                try:
                    os.chdir(seed_dir)
                    DH.__enter__, DH.__exit__ = orig_enter, orig_exit
                    seed = tdgl.solve(src, tdgl.SolverOptions(**dict(kw, output_file="seed.h5")), applied_vector_potential=0.1,
                                      terminal_currents=seed_currents(src))
                    if how == "seed:loaded-from-file":
                        seed = tdgl.Solution.from_hdf5(os.path.join(seed_dir, "seed.h5"))
                        own = seed.device
                finally:
                    DH.__enter__, DH.__exit__ = w_enter, w_exit
                    os.chdir(sandbox)
                    tempfile.tempdir = str(tempd)
                dev = own
                solve_kw["terminal_currents"] = seed_currents(dev)
                solve_kw["seed_solution"] = seed
                mesh_info = mesh_facts(seed_arrays, mesh_arrays(dev), len(np.asarray(seed.tdgl_data.psi)))
                mesh_info.update(how=how, same_definition=True, seed_device_is_device=bool(seed.device is dev))
            elif cls == "ashape":
                # a vector potential of the wrong shape, including shapes that numpy would happily broadcast
                shapes = ["n+1,3", "n", "n,1", "1,3", "3", "0d", "n,3,1", "3,n"]
                shp = shapes[v % len(shapes)]

                def badA(x, y, z, shp=shp):
                    n = len(x)
                    return {"n+1,3": np.zeros((n + 1, 3)), "n": 0.1 * np.ones(n), "n,1": 0.1 * np.ones((n, 1)),
                            "1,3": 0.1 * np.ones((1, 3)), "3": 0.1 * np.ones(3), "0d": np.float64(0.1),
                            "n,3,1": np.zeros((n, 3, 1)), "3,n": np.zeros((3, n))}[shp]
                # (a tdgl.Parameter squeezes what its function returns, so (n,3,1) is a legal shape there)
                if v >= len(shapes) and shp == "n,3,1":
                    shp2 = "n+1,3"
                    solve_kw["applied_vector_potential"] = tdgl.Parameter(lambda x, y, z: np.zeros((len(x) + 1, 3)))
                else:
                    solve_kw["applied_vector_potential"] = badA if v < len(shapes) else tdgl.Parameter(badA)
            elif cls == "polygon":
                if v == 0:
                    tdgl.Polygon("bow", points=[(0, 0), (1, 1), (1, 0), (0, 1)])       # self-intersecting
                elif v == 1:
                    tdgl.Polygon("line", points=[(0, 0), (1, 1)])                       # degenerate
                elif v == 2:
                    tdgl.Polygon("wrong", points=np.zeros((4, 3)))                      # wrong shape
                else:
                    # outline that back-tracks over itself (zero-width spike A,B,A or a detour along its own edge):
                    # invalid ("Self-intersection"); spike length = mag-scaled, inward/outward, as film / hole / terminal
                    L = {1.0: 1.0, 1e-3: 1e-3, 1e-6: 8e-6}[mag]
                    sq = [(-2.0, -1.5), (2.0, -1.5), (2.0, 1.5), (-2.0, 1.5)]
                    if v in (3, 6):      # outward spike on the right edge
                        pts = [sq[0], sq[1], (2.0, 0.0), (2.0 + L, 0.0), (2.0, 0.0), sq[2], sq[3]]
                    elif v in (4, 7):    # inward spike
                        pts = [sq[0], sq[1], (2.0, 0.0), (2.0 - L, 0.0), (2.0, 0.0), sq[2], sq[3]]
                    else:                # detour along its own edge
                        pts = [sq[0], sq[1], (2.0, 0.5 * L), (2.0, 0.0), (2.0, 0.5 * L), sq[2], sq[3]]
                    poly = tdgl.Polygon("spiky", points=pts)
                    if v >= 6:           # went through: use it as a hole / film of a device and simulate
                        film = tdgl.Polygon("film", points=box(8, 6, points=40))
                        d2 = tdgl.Device("spiky", layer=dev.layer, film=film, holes=[poly])
                        d2.make_mesh(max_edge_length=1.0)
                        tdgl.solve(d2, tdgl.SolverOptions(**kw), applied_vector_potential=0.1)
                raise RuntimeError("polygon accepted")
            elif cls == "device":
                layer = dev.layer
                film = tdgl.Polygon("film", points=box(5, 3, points=48))
                if v == 0:
                    tdgl.Device("d", layer=layer, film=film, terminals=[tdgl.Polygon("a", points=box(0.1, 3, center=(-2.5, 0))),
                                                                         tdgl.Polygon("a", points=box(0.1, 3, center=(2.5, 0)))])
                elif v == 1:
                    tdgl.Device("d", layer=layer, film=film, holes=[tdgl.Polygon("h", points=circle(0.3)), tdgl.Polygon("h", points=circle(0.3, center=(1, 0)))])
                elif v == 2:
                    tdgl.Device("d", layer=layer, film=film, probe_points=[(0, 0), (10, 10)])
                elif v == 3:
                    tdgl.Device("d", layer=layer, film=tdgl.Polygon(points=box(5, 3, points=48)))   # unnamed film
                elif v == 4:
                    tdgl.Device("d", layer=layer, film=film, probe_points=[(0.0, 0.0, 0.0), (1.0, 0.0, 0.0)])     # (n, 3) probe points
                elif v == 5:
                    tdgl.Device("d", layer=layer, film=film, terminals=[tdgl.Polygon(points=box(0.1, 3, center=(-2.5, 0))),
                                                                         tdgl.Polygon("b", points=box(0.1, 3, center=(2.5, 0)))])   # unnamed terminal
                elif v in (8, 9, 10, 11):
                    # a probe point inside a hole is not "within the film": with one hole, with two and three holes, at the
                    # centre of the hole and just inside its rim
                    holes = [tdgl.Polygon("h1", points=circle(0.5, points=24, center=(-1.2, 0.3))),
                             tdgl.Polygon("h2", points=circle(0.4, points=24, center=(1.0, -0.5))),
                             tdgl.Polygon("h3", points=circle(0.3, points=24, center=(0.0, 0.9)))][: [1, 2, 3, 2][v - 8]]
                    inside = [(-1.2, 0.3), (1.0, -0.5), (0.0, 0.9 - 0.25), (1.0 + 0.35, -0.5)][v - 8]
                    d2 = tdgl.Device("d", layer=layer, film=film, holes=holes, probe_points=[(-2.0, -1.0), inside])
                    d2.make_mesh(max_edge_length=0.8)
                    tdgl.solve(d2, tdgl.SolverOptions(**kw), applied_vector_potential=0.1)
                else:
                    # a device that was never meshed (v == 6), or whose mesh was dropped again (v == 7), handed to the solver
                    d2 = tdgl.Device("d", layer=layer, film=film, terminals=[tdgl.Polygon("source", points=box(0.1, 3, center=(-2.5, 0))),
                                                                              tdgl.Polygon("drain", points=box(0.1, 3, center=(2.5, 0)))])
                    if v == 7:
                        d2.make_mesh(max_edge_length=0.8)
                        d2.mesh = None
                    tdgl.solve(d2, tdgl.SolverOptions(**kw), applied_vector_potential=0.1, terminal_currents={"source": 1.0, "drain": -1.0})
                raise RuntimeError("device accepted")
            opts = tdgl.SolverOptions(**kw)
            if cls == "options_reused":
                import copy as _copy
                import pickle as _pickle
                opts.validate()
                TDGLSolver(dev, opts, **solve_kw)                  # a first, well-posed use of the same object
                opts = [opts, _copy.copy(opts), _copy.deepcopy(opts), _pickle.loads(_pickle.dumps(opts))][v % 4]
                for key, val in reused.items():
                    setattr(opts, key, val)
            # ---------------- constructor phase
            phase = "ctor"
            solver = TDGLSolver(dev, opts, **solve_kw)
            # ---------------- solve phase
            phase = "presolve"
            sol = solver.solve()
            result = "none" if sol is None else "solution"
        except (KeyboardInterrupt, core.MachineryFailure):
            raise
        except Exception as e:
            exc = type(e).__name__ + ": " + str(e)[:200]
            if entered["n"] == 0 and not (isinstance(e, RuntimeError) and "accepted" in str(e)):
                result = "rejected"
                events.append({"ev": "reject", "phase": phase, "cls": cls})
            else:
                result = "raised"
        finally:
            DH.__enter__, DH.__exit__ = orig_enter, orig_exit
        fs = fs_state(sandbox, tempd, out_mode, [])
        events.append({"ev": "return", "result": result, "exc": exc, "fs": fs, "ltimes": [], "luids": [], "range": []})
    finally:
        tempfile.tempdir = old_tempdir
        os.chdir(cwd)
        shutil.rmtree(sandbox, ignore_errors=True)
    return {"cfg": {"k": 2, "solveT": 1, "skipT": 0, "out": out_mode, "foreign": [], "bad": cls},
            "coarse": True, "ev": events, "info": {"exc": exc, "phase": phase, "mesh": mesh_info}}
