"""Natural runs of the REAL solver observed frame by frame for spec/RunObs.tla (C01, C17).

Abstraction (DESIGN.md 4.3): Python only reads the output HDF5 (h5py), recomputes per-cell net
outflow / per-terminal inflow from the mesh arrays with the DOCUMENTED divergence
(docs/background.rst eq. divergence: a_i (div F)_i = sum_j F_ij s_ij) and quantises; TLC decides.
"""
from __future__ import annotations

import math
import os
import re
import shutil
import tempfile

import h5py
import numpy as np

from . import devices

FINE = 1e-12      # fine quantum (relative): conservation defects
COARSE = 1e-6     # coarse quantum (relative)
TOL = 1000        # 1e-9
CTOL = 5
CAP = 10 ** 9
PHI0 = 2.067833848e-15      # Wb
MU0 = 1.25663706212e-6      # vacuum permeability (CODATA 2018)
LEN = {"um": 1e-6, "nm": 1e-9, "mm": 1e-3}
CUR = {"uA": 1e-6, "nA": 1e-9, "mA": 1e-3, "A": 1.0}


def cfg(guarded=True, known=False):
    """known = TRUE: the bitwise clause is demanded modulo the open known finding (ExactlyStationaryModKnown ==
    (seeded \\/ psi == 1 bitwise) /\\ mu, currents, induced potential exactly 0); known = FALSE: the un-weakened clause."""
    return (f"CONSTANTS\n Guarded = {'TRUE' if guarded else 'FALSE'}\n Known = {'TRUE' if known else 'FALSE'}\n Tol = {TOL}\n CTol = {CTOL}\n"
            "SPECIFICATION Spec\nINVARIANT Accepted\nINVARIANT NonVacuous\nINVARIANT BalancedAssignmentsAccepted\n"
            "INVARIANT FrameZeroIsInitialState\nINVARIANT CellOutflowEqualsInjection\nINVARIANT TerminalInflowEqualsRequested\n"
            f"INVARIANT {'ExactlyStationaryModKnown' if known else 'ExactlyStationary'}\nINVARIANT StepGrowsToMax\n"
            "INVARIANT StationaryToRounding\nINVARIANT EditsReached\nCHECK_DEADLOCK FALSE\n")


def diagnosis_cfg():
    return (f"CONSTANTS\n Guarded = FALSE\n Known = FALSE\n Tol = {TOL}\n CTol = {CTOL}\nSPECIFICATION Spec\nINVARIANT Diagnosis\n"
            "CHECK_DEADLOCK FALSE\n")


CLAUSES = ["BalancedAssignmentsAccepted", "FrameZeroIsInitialState", "CellOutflowEqualsInjection", "TerminalInflowEqualsRequested",
           "ExactlyStationary", "StepGrowsToMax", "StationaryToRounding", "ExactlyStationaryModKnown"]


def q(x, quantum):
    if not np.isfinite(x):
        return CAP
    v = x / quantum
    return int(max(-CAP, min(CAP, round(v))))


# ---------------------------------------------------------------- devices / runs


def make_device(tdgl, a):
    dev = devices.make(tdgl, a.get("dev", "bar"), mel=a.get("mel", 0.8), smooth=a.get("smooth", 0),
                       length_units=a.get("length_units", "um"), scale=a.get("scale", 1.0), gamma=a.get("gamma", 10.0))
    if a.get("u") is not None:
        lay = dev.layer
        sc = a.get("scale", 1.0)       # the values asked for (as harness/devices.py does), not read back from the cached object
        layer = tdgl.Layer(coherence_length=1.0 * sc, london_lambda=2.0 * sc, thickness=0.1 * sc, gamma=a.get("gamma", 10.0), u=a["u"])
        d2 = tdgl.Device(dev.name, layer=layer, film=dev.film, holes=dev.holes, terminals=list(dev.terminals),
                         probe_points=dev.probe_points, length_units=dev.length_units)
        d2.mesh = dev.mesh
        dev = d2
    return dev


def current_unit_scale(length_units, current_units, a_scale=1.0):
    """I0 = K0 xi / 4 = Phi0 d / (2 pi mu0 lambda^2) in `current_units` (docs: K0 = 4 xi Bc2 / (mu0 Lambda),
    Bc2 = Phi0 / (2 pi xi^2), Lambda = lambda^2 / d); dimensionless inflow * I0 = current."""
    L = LEN[length_units]
    # lambda and d as ASKED FOR when the device was built (harness devices: london_lambda = 2 scale, thickness = 0.1 scale)
    lam = 2.0 * a_scale * L
    d = 0.1 * a_scale * L
    return PHI0 * d / (2 * math.pi * MU0 * lam ** 2) / CUR[current_units]


def currents_func(a):
    """user currents as a function of time (dict name -> value in current_units), or None"""
    cur = a.get("currents")
    if not cur:
        return None
    ramp = a.get("current_ramp")
    extra = a.get("currents_ramped")
    if extra:
        # base assignment held constant + a second balanced assignment ramped up: I(t) = base + min(1, t/T) * extra
        names = list(dict.fromkeys(list(cur) + list(extra)))
        return lambda t, cur=cur, extra=extra, T=ramp: {k: cur.get(k, 0.0) + min(1.0, t / T) * extra.get(k, 0.0) for k in names}
    if ramp:
        return lambda t, cur=cur, T=ramp: {k: v * min(1.0, t / T) for k, v in cur.items()}
    return lambda t, cur=cur: dict(cur)


EPS_FORMS = ["constant", "per-site", "per-site-norm", "per-site-sum", "vectorized", "time-dependent", "time-dependent-vectorized"]


def make_epsilon(a):
    """epsilon == 1 on the whole film, expressed in different API forms; positions are in the device's length units.  The film of
    fresh_device is the box |x| <= 2.5, |y| <= 1.5 (minus, for 'ring', the disc of radius 0.6 about (0.2, 0.1)); OFF the film the
    functions return values != 1 (so that an evaluation at wrong positions, or of an aggregate, shows)."""
    form = a["eps_form"]
    ring = a.get("dev") == "ring"

    def inside(x, y):
        ok = (np.abs(x) <= 2.5 + 1e-9) & (np.abs(y) <= 1.5 + 1e-9)
        if ring:
            ok = ok & ((x - 0.2) ** 2 + (y - 0.1) ** 2 >= 0.55 ** 2)
        return ok

    if form == "constant":
        return 1.0
    if form == "per-site":            # called once per site with r = (x, y)
        def eps(r):
            return 1.0 if inside(r[0], r[1]) else -0.5
        return eps
    if form == "per-site-norm":       # reduces its argument: fine for one position, an aggregate for an (n, 2) array
        def eps(r):
            if ring and (r[0] - 0.2) ** 2 + (r[1] - 0.1) ** 2 < 0.55 ** 2:
                return 0.0
            return 1.0 if np.linalg.norm(r) < 3.0 else 0.0
        return eps
    if form == "per-site-sum":
        def eps(r):
            return 1.0 if float(np.sum(np.asarray(r) ** 2)) < 9.0 else -1.0
        return eps
    if form == "vectorized":
        def eps(r, *, vectorized=True):
            r = np.atleast_2d(r)
            return np.where(inside(r[:, 0], r[:, 1]), 1.0, -0.5)
        return eps
    if form == "time-dependent":      # keyword t: re-evaluated at every step
        def eps(r, *, t):
            return 1.0 if inside(r[0], r[1]) else 1.0 - 1.5 * min(1.0, 0.25 + t)
        return eps
    if form == "time-dependent-vectorized":
        def eps(r, *, t, vectorized=True):
            r = np.atleast_2d(r)
            return np.where(inside(r[:, 0], r[:, 1]), 1.0, 0.5 - min(1.0, t))
        return eps
    raise ValueError(form)


def stationary_eps_run(tdgl, a, tmp):
    """The uniform state with epsilon == 1 expressed as `eps_form`, on a NEW device with coherence length a['xi'] and mesh size
    a['mel'].  The precondition (the function is 1 at every site of the film, at all times) is asserted here."""
    kind = a.get("dev", "film")
    dev = fresh_device(tdgl, kind, xi=a.get("xi", 1.0), gamma=a.get("gamma", 10.0))
    dev.make_mesh(max_edge_length=a.get("mel", 0.8), smooth=a.get("smooth", 0))
    f = make_epsilon(a)
    pts = float(a.get("xi", 1.0)) * np.asarray(dev.mesh.sites)       # xi as asked for
    discriminates = None
    if callable(f):
        form = a["eps_form"]
        for t in (0.0, 0.3, 5.0):
            kw = {"t": t} if form.startswith("time-dependent") else {}
            vals = np.asarray(f(pts, **kw)) if "vectorized" in form else np.array([float(f(r, **kw)) for r in pts])
            if not np.all(vals == 1.0):
                raise RuntimeError(f"stationary_eps_run: epsilon form {form} is not 1 on the film (precondition of C17)")
        if form.startswith("per-site"):
            # does the function distinguish 'called once per site' from 'called once with all positions'?
            try:
                agg = np.asarray(f(pts), dtype=float)
                discriminates = bool(not (agg.shape in ((), (1,), (len(pts),)) and np.all(agg == 1.0)))
            except Exception:
                discriminates = None      # the aggregate call raises: an implementation has to fall back to per-site calls
        if form.startswith("time-dependent"):
            # does the function distinguish the positions in length units from the dimensionless mesh coordinates?
            m = np.asarray(dev.mesh.sites)
            vals = np.asarray(f(m, t=0.3)) if "vectorized" in form else np.array([float(f(r, t=0.3)) for r in m])
            discriminates = bool(not np.all(vals == 1.0))
    t = stationary_run(tdgl, a, tmp, dev=dev)
    t["eps_form"] = a["eps_form"]
    t["xi"] = a.get("xi", 1.0)
    t["mel"] = a.get("mel", 0.8)
    t["discriminates"] = discriminates
    return t


def solve_args(tdgl, a, out):
    opts = tdgl.SolverOptions(
        solve_time=a["solve_time"], dt_init=a.get("dt", 2.0 ** -6), dt_max=a.get("dt_max", 0.125), adaptive=a.get("adaptive", False),
        adaptive_window=a.get("window", 3), save_every=a.get("k", 5), progress_interval=10 ** 9, pause_on_interrupt=False,
        output_file=out, include_screening=a.get("screening", False), field_units=a.get("field_units", "mT"),
        current_units=a.get("current_units", "uA"), terminal_psi=a.get("terminal_psi", 0.0),
        screening_tolerance=a.get("screening_tol", 1e-3))
    kw = {}
    if a.get("eps_form"):
        kw["disorder_epsilon"] = make_epsilon(a)
    f = currents_func(a)
    if f is not None:
        kw["terminal_currents"] = f if a.get("current_ramp") else dict(a["currents"])      # a dict may omit terminals (they carry no current)
    field = a.get("field", 0.0)
    if a.get("field_ramp"):
        from tdgl.sources import ConstantField, LinearRamp

        kw["applied_vector_potential"] = (ConstantField(field, field_units=a.get("field_units", "mT"), length_units=a.get("length_units", "um"))
                                          * LinearRamp(tmin=0, tmax=a["field_ramp"]))
    else:
        kw["applied_vector_potential"] = field
    return opts, kw


def read_frames(path):
    frames = []
    with h5py.File(path, "r") as f:
        for key in sorted(f["data"], key=int):
            g = f["data"][key]
            fr = {"step": int(g.attrs["step"]), "time": float(g.attrs["time"])}
            for nm in ("psi", "mu", "supercurrent", "normal_current", "induced_vector_potential"):
                fr[nm] = np.array(g[nm])
            dts = []
            if "running_state" in g:
                d = np.atleast_1d(np.array(g["running_state"]["dt"])).reshape(-1)
                dts = [float(x) for x in d if x > 0]
            fr["dts"] = dts
            frames.append(fr)
    return frames


class StepBudgetExceeded(RuntimeError):
    """the run took more steps than the documented step rule allows for it (observation: the run does not get there)"""


def run_solver(tdgl, a, tmp, capture=None, dev=None, opts=None, step_budget=None):
    """-> (accepted?, frames, dev, error text).  With capture = {} the REAL TDGLSolver object of the run is stored in
    capture["solver"] (run-time wrapper on TDGLSolver.solve, DESIGN.md 4.1; arguments and results untouched).
    step_budget: the largest number of update() calls the documented step rule allows this run (computed by the caller from
    the literals it asked for); one call more raises StepBudgetExceeded inside the run -- a run that would take a million
    steps at dt_init becomes an observation instead of a check that never returns."""
    from tdgl.solver.solver import TDGLSolver

    work = tempfile.mkdtemp(prefix="runobs", dir=tmp)
    cwd = os.getcwd()
    orig_solve = TDGLSolver.solve
    if capture is not None or step_budget is not None:
        def w_solve(self):
            if capture is not None:
                capture["solver"] = self
            if step_budget is not None:
                inner, count = self.update, [0]

                def counted(*args, **kwargs):
                    count[0] += 1
                    if count[0] > step_budget:
                        raise StepBudgetExceeded(f"step budget exceeded: {count[0]} update() calls, the documented step rule allows at most "
                                                 f"{step_budget} for this run (the step did not grow / the run does not reach its solve time)")
                    return inner(*args, **kwargs)
                self.update = counted
            return orig_solve(self)
        TDGLSolver.solve = w_solve
    try:
        os.chdir(work)
        if dev is None:
            dev = make_device(tdgl, a)
        if opts is None:
            opts, kw = solve_args(tdgl, a, os.path.join(work, "out.h5"))
        else:
            # an options OBJECT with a history (re-used by the caller): only the output location is pointed at this run's directory
            _, kw = solve_args(tdgl, a, os.path.join(work, "out.h5"))
            opts.output_file = os.path.join(work, "out.h5")
        try:
            sol = tdgl.solve(dev, opts, **kw)
            if capture is not None:
                capture["solution"] = sol
        except ValueError as e:
            if re.search(r"sum of all terminal currents", str(e)):
                return False, [], dev, str(e)
            raise
        return True, read_frames(sol.path), dev, None
    finally:
        TDGLSolver.solve = orig_solve
        os.chdir(cwd)
        shutil.rmtree(work, ignore_errors=True)


HALF_ULP_UP = 2.0 ** -53      # 1 + y rounds to 1.0 for 0 <= y <= 2^-53 (ties to even)
HALF_ULP_DOWN = 2.0 ** -54    # 1 + y rounds to 1.0 for -2^-54 <= y <= 0 (the spacing below 1.0 is 2^-53)


def rounding_seed(solver, dt, gamma, u):
    """Rounding seed of the call site `psi_laplacian @ psi` at psi = 1, computed from the REAL operators of the run with
    the expression of solve_for_psi_squared: y_i = (dt/u) * sqrt(1 + gamma^2 |psi|^2) * ((eps - |psi|^2) psi + L psi)_i at
    psi = 1, eps = 1.  The update forms psi + y; if every fl(1 + y_i) is 1.0 the assembled Laplacian cannot move psi off
    1.0 (w = z + 1 exactly, root exactly 1).  -> (max |y_i|, seeded)"""
    ops = solver.operators
    one = np.ones(ops.psi_laplacian.shape[0], dtype=np.complex128)
    a = np.absolute(one) ** 2
    # gamma, u: the values asked for through Layer(...); epsilon = 1 (the precondition of the property)
    y = (dt / u) * np.sqrt(1 + gamma ** 2 * a) * ((1.0 - a) * one + ops.psi_laplacian @ one)
    if ops.fix_psi and ops.fixed_sites is not None and len(ops.fixed_sites):
        # pinned terminal sites: identity rows (row "sum" 1), re-imposed to exactly terminal_psi by the solver after every
        # step -- they cannot carry a seed; only the free rows (which still couple to the pinned sites) count
        y = np.array(y)
        y[np.asarray(ops.fixed_sites)] = 0.0
    seeded = bool(np.any(one + y != one))
    yr = np.real(y)
    seeded_by_threshold = bool(np.any(yr > HALF_ULP_UP) or np.any(yr < -HALF_ULP_DOWN) or np.any(np.imag(y) != 0))
    return float(np.abs(y).max()), seeded, seeded_by_threshold


def nums_of(a):
    """the requested currents as integers over a common denominator (for the acceptance clause)"""
    den = a.get("currents_den", 1000)
    vals = list((a.get("currents") or {}).values()) + list((a.get("currents_ramped") or {}).values())
    nums = [int(round(v * den)) for v in vals]
    if any(abs(n / den - v) > 1e-12 * max(1, abs(v)) for n, v in zip(nums, vals)):
        raise RuntimeError(f"currents {vals} are not multiples of 1/{den}")
    return nums, den


# ---------------------------------------------------------------- C17


def stationary_run(tdgl, a, tmp, dev=None, opts=None):
    """undriven run: no field, no currents, epsilon = 1 (on the cached harness device of `a`, or on the given Device object)"""
    a = dict(a, field=0.0, currents=None)
    REQ_GAMMA = float(a.get("gamma", 10.0))                          # asked for through Layer(...), not read back
    REQ_U = float(a["u"]) if a.get("u") is not None else 5.79        # documented default
    if a.get("stable", True):
        # keep the explicit part of the scheme linearly stable for amplitude perturbations (so that what is observed is the
        # presence or absence of a spurious source, not its amplification): dt_max <= u S / lambda_max, S = sqrt(1 + gamma^2),
        # lambda_max <= 2 max_i sum_j w_ij / a_i (Gershgorin)
        dev0 = dev if dev is not None else make_device(tdgl, a)
        em = dev0.mesh.edge_mesh
        w = em.dual_edge_lengths / em.edge_lengths
        rows = np.zeros(len(dev0.mesh.sites))
        np.add.at(rows, em.edges[:, 0], w)
        np.add.at(rows, em.edges[:, 1], w)
        lam = 2 * float((rows / dev0.mesh.areas).max())
        limit = REQ_U * math.sqrt(1 + REQ_GAMMA ** 2) / lam
        dt0 = a.get("dt", 2.0 ** -6)
        ratio = (a.get("dt_max", 0.125) / dt0) if a.get("adaptive") else 1.0
        dt = min(dt0, 2.0 ** math.floor(math.log2(limit / ratio)))
        a = dict(a, dt=dt, dt_max=dt * ratio, solve_time=a["solve_time"] * dt / dt0)
    cap = {}
    # documented step rule on an undriven run: `window` steps at dt_init, then (the change of |psi|^2 is zero) dt_max for the rest;
    # without adaptivity solve_time / dt steps.  Four times that plus 60 is the budget (thermalisation: none in these runs).
    _dt0, _dtm, _T = a.get("dt", 2.0 ** -6), a.get("dt_max", 0.125), float(a.get("solve_time", 1.0))
    _n = (int(a.get("window", 3)) + 2 + math.ceil(_T / _dtm)) if a.get("adaptive") else math.ceil(_T / _dt0)
    budget = 4 * _n + 60
    try:
        ok, frames, dev, err = run_solver(tdgl, a, tmp, capture=cap, dev=dev, opts=opts, step_budget=budget)
    except RuntimeError as e:       # the solver gave up (retries / screening iterations exhausted) on the uniform state, or the budget
        return {"cfg": {"adaptive": bool(a.get("adaptive", False)), "window": int(a.get("window", 3)), "driven": False,
                        "screening": bool(a.get("screening", False))},
                "seed": 0.0, "seeded": False, "seed_over_half_ulp": 0.0, "ev": [{"kind": "raised"}], "args": a, "raised": repr(e),
                "worst": {}, "nsites": 0, "nsteps": 0, "dt_last": None}
    dt_init, dt_max = a.get("dt", 2.0 ** -6), a.get("dt_max", 0.125)
    dt_largest = dt_max if a.get("adaptive") else dt_init
    seed, seeded, seeded_thr = rounding_seed(cap["solver"], dt_largest, REQ_GAMMA, REQ_U)
    if seeded != seeded_thr:
        raise RuntimeError(f"rounding seed: fl(1 + y) test ({seeded}) and half-ulp thresholds ({seeded_thr}) disagree")
    ev = []
    worst = {"psi": 0.0, "mu": 0.0, "js": 0.0, "jn": 0.0, "ind": 0.0}
    for fr in frames:
        one = np.ones_like(fr["psi"])
        cls = ["init" if d == dt_init else ("max" if (a.get("adaptive") and d == dt_max) else "other") for d in fr["dts"]]
        worst["psi"] = max(worst["psi"], float(np.abs(fr["psi"] - 1).max()))
        worst["mu"] = max(worst["mu"], float(np.abs(fr["mu"]).max()))
        worst["js"] = max(worst["js"], float(np.abs(fr["supercurrent"]).max()))
        worst["jn"] = max(worst["jn"], float(np.abs(fr["normal_current"]).max()))
        worst["ind"] = max(worst["ind"], float(np.abs(fr["induced_vector_potential"]).max()))
        ev.append({"kind": "stat", "step": fr["step"],
                   "psi1": bool(fr["psi"].tobytes() == one.tobytes()),
                   "mu0": bool(not fr["mu"].any()), "js0": bool(not fr["supercurrent"].any()),
                   "jn0": bool(not fr["normal_current"].any()), "ind0": bool(not fr["induced_vector_potential"].any()),
                   "dev": q(float(max(np.abs(fr["psi"] - 1).max(), np.abs(fr["mu"]).max(), np.abs(fr["supercurrent"]).max(),
                                      np.abs(fr["normal_current"]).max(), np.abs(fr["induced_vector_potential"]).max())), FINE),
                   "seeded": seeded, "dts": cls})
    return {"cfg": {"adaptive": bool(a.get("adaptive", False)), "window": int(a.get("window", 3)), "driven": False,
                    "screening": bool(a.get("screening", False))},
            "seed": seed, "seeded": seeded, "seed_over_half_ulp": seed / HALF_ULP_UP,
            "ev": ev, "args": a, "worst": worst, "nsites": int(len(dev.mesh.sites)), "nsteps": sum(len(f["dts"]) for f in frames),
            "dt_last": frames[-1]["dts"][-1] if frames and frames[-1]["dts"] else None}


# ---------------------------------------------------------------- C01


def raw_geometry(sites, elements, edges):
    """First-principles geometry of the finite-volume mesh, rebuilt from the RAW site coordinates and triangles only (docs:
    'Finite volume method'): edge lengths e_ij = |r_j - r_i|; Voronoi face lengths s_ij = distance between the circumcentres of
    the two triangles sharing the edge (inner edge) or from the circumcentre of its only triangle to the edge midpoint (boundary
    edge); boundary edges = edges of exactly one triangle.  `edges` is used only as the index map of the per-edge datasets
    (which site pair, in which orientation, entry k refers to); it must be exactly the set of triangle edges."""
    r = np.asarray(sites, dtype=float)
    tri = np.asarray(elements, dtype=int)
    edges = np.asarray(edges, dtype=int)
    A, B, C = r[tri[:, 0]], r[tri[:, 1]], r[tri[:, 2]]
    d = 2 * (A[:, 0] * (B[:, 1] - C[:, 1]) + B[:, 0] * (C[:, 1] - A[:, 1]) + C[:, 0] * (A[:, 1] - B[:, 1]))
    a2, b2, c2 = (A ** 2).sum(1), (B ** 2).sum(1), (C ** 2).sum(1)
    cc = np.stack([(a2 * (B[:, 1] - C[:, 1]) + b2 * (C[:, 1] - A[:, 1]) + c2 * (A[:, 1] - B[:, 1])) / d,
                   (a2 * (C[:, 0] - B[:, 0]) + b2 * (A[:, 0] - C[:, 0]) + c2 * (B[:, 0] - A[:, 0])) / d], axis=1)
    owner = {}
    for t, (i, j, k) in enumerate(tri):
        for p, q in ((i, j), (j, k), (k, i)):
            owner.setdefault((min(p, q), max(p, q)), []).append(t)
    keys = [(min(i, j), max(i, j)) for i, j in edges]
    if len(set(keys)) != len(keys) or set(keys) != set(owner):
        raise RuntimeError("raw_geometry: the stored edge list is not the edge set of the triangulation")
    elen = np.linalg.norm(r[edges[:, 1]] - r[edges[:, 0]], axis=1)
    mid = (r[edges[:, 1]] + r[edges[:, 0]]) / 2
    dual = np.zeros(len(edges))
    boundary = np.zeros(len(edges), dtype=bool)
    for n, key in enumerate(keys):
        ts = owner[key]
        if len(ts) == 1:
            boundary[n] = True
            dual[n] = np.linalg.norm(cc[ts[0]] - mid[n])
        elif len(ts) == 2:
            dual[n] = np.linalg.norm(cc[ts[0]] - cc[ts[1]])
        else:
            raise RuntimeError("raw_geometry: an edge belongs to more than two triangles")
    return dict(edges=edges, edge_lengths=elen, dual=dual, boundary=boundary, midpoints=mid, nsites=len(r))


def cell_outflow(geo, J):
    """a_i (div J)_i = sum_j J_ij s_ij (docs eq. divergence) with the first-principles Voronoi faces; J per edge along
    edges[:,0] -> edges[:,1]"""
    flux = J * geo["dual"]
    out = np.zeros(geo["nsites"])
    np.add.at(out, geo["edges"][:, 0], flux)
    np.add.at(out, geo["edges"][:, 1], -flux)
    return out, flux


def terminal_geometry(dev, geo, xi_requested=1.0):
    """Which boundary edges / boundary sites lie in which terminal: decided from the terminal polygons (length units), the raw
    midpoints of the raw boundary edges and the coherence length the harness asked for -- not from Device.terminal_info() or
    edge_mesh attributes."""
    xi = float(xi_requested)
    bidx = np.nonzero(geo["boundary"])[0]
    centres = xi * geo["midpoints"][bidx]
    bsites = np.unique(geo["edges"][bidx].reshape(-1))
    pts = xi * np.asarray(dev.mesh.sites)
    out = {}
    for t in dev.terminals:
        be = np.asarray(t.contains_points(centres, index=True), dtype=int)
        inside = np.asarray(t.contains_points(pts[bsites], index=True), dtype=int)
        out[t.name] = {"bedges": bidx[be], "sites": bsites[inside]}
    return out


def conservation_run(tdgl, a, tmp):
    ok, frames, dev, err = run_solver(tdgl, a, tmp)
    return conservation_trace(dev, a, ok, frames, err)


def conservation_trace(dev, a, ok, frames, err, polys=None, epoch=None):
    """polys (optional): name -> vertex list of the terminal polygons IN FORCE at this solve, as the harness itself specified
    them (then the terminal edges / sites come from terminal_geometry_raw, nothing is asked of the Device's terminals);
    epoch (optional): number of terminal edits that preceded this solve, recorded on the frame events."""
    nums, den = nums_of(a)
    ev = [{"kind": "ctor", "nums": nums, "den": den, "accepted": bool(ok)}]
    tr = {"cfg": {"adaptive": bool(a.get("adaptive", False)), "window": int(a.get("window", 3)), "driven": bool(ok and any(nums)),
                  "screening": bool(a.get("screening", False))},
          "ev": ev, "args": a, "error": err, "worst_cell": 0.0, "worst_term": 0.0, "nframes": 0}
    if not ok:
        return tr
    mesh = dev.mesh
    geo = raw_geometry(mesh.sites, mesh.elements, mesh.edge_mesh.edges)
    # (evidence only) how far the package's own arrays are from the first-principles ones
    tr["package_vs_raw"] = {"dual": float(np.abs(np.asarray(mesh.edge_mesh.dual_edge_lengths) - geo["dual"]).max() / geo["dual"].max()),
                            "edge": float(np.abs(np.asarray(mesh.edge_mesh.edge_lengths) - geo["edge_lengths"]).max() / geo["edge_lengths"].max())}
    I0_doc = current_unit_scale(a.get("length_units", "um"), a.get("current_units", "uA"), a.get("scale", 1.0))      # independent constants: used at the coarse level
    # fine level: the device's own K0 and xi (documented properties), so that the last digits of mu0 / Phi0 do not matter
    I0 = float((dev.K0 * dev.coherence_length / 4).to(a.get("current_units", "uA")).magnitude)
    tr["I0_ratio"] = I0 / I0_doc
    if polys is None:
        tinfo = terminal_geometry(dev, geo, a.get("scale", 1.0))
    else:
        tinfo = terminal_geometry_raw(polys, geo, mesh.sites, a.get("scale", 1.0))
    ep = {} if epoch is None else {"epoch": int(epoch)}
    f_cur = currents_func(a)
    term_cell = np.zeros(len(mesh.sites), dtype=bool)
    share = {}          # terminal -> per-site share of the terminal's length (half of each boundary edge at the site)
    for name, t in tinfo.items():
        sh = np.zeros(len(mesh.sites))
        be = t["bedges"]
        np.add.at(sh, geo["edges"][be, 0], geo["edge_lengths"][be] / 2)
        np.add.at(sh, geo["edges"][be, 1], geo["edge_lengths"][be] / 2)
        share[name] = sh
        term_cell |= sh > 0
    tpsi = a.get("terminal_psi", 0.0)
    for fr in frames:
        if fr["step"] == 0:
            psi0 = np.ones(len(mesh.sites), dtype=complex)
            if tpsi is not None:
                for t in tinfo.values():
                    psi0[t["sites"]] = tpsi
            init = bool(np.array_equal(fr["psi"], psi0) and not fr["mu"].any() and not fr["supercurrent"].any()
                        and not fr["normal_current"].any())
            ev.append(dict({"kind": "frame0", "init": init}, **ep))
            continue
        J = fr["supercurrent"] + fr["normal_current"]
        out, flux = cell_outflow(geo, J)
        t_prev = fr["time"] - (fr["dts"][-1] if fr["dts"] else 0.0)     # the boundary condition of the last step was set at its start
        req = f_cur(t_prev) if f_cur else {}
        inj = np.zeros(len(mesh.sites))
        for name, sh in share.items():
            L = sh.sum()
            inj += (req.get(name, 0.0) / I0) * sh / L
        scale = max(float(np.abs(flux).max()), float(np.abs(inj).max()), 1e-300)
        cells = [{"d": q(o - i, FINE * scale), "out": q(o, COARSE * scale), "inj": q(i, COARSE * scale), "term": bool(tc)}
                 for o, i, tc in zip(out, inj, term_cell)]
        tr["worst_cell"] = max(tr["worst_cell"], float(np.abs(out - inj).max() / scale))
        iscale = max([abs(v) for v in req.values()] + [scale * I0, 1e-300])
        terms = []
        for name, sh in share.items():
            inflow = float(out[sh > 0].sum()) * I0          # what leaves the terminal's cells into the film entered through the terminal
            r = req.get(name, 0.0)
            terms.append({"d": q(inflow - r, FINE * iscale), "inflow": q(inflow / I0 * I0_doc, COARSE * iscale), "req": q(r, COARSE * iscale),
                          "name": name})
            tr["worst_term"] = max(tr["worst_term"], abs(inflow - r) / iscale)
        ev.append(dict({"kind": "cons", "step": fr["step"], "cells": cells, "terms": terms}, **ep))
        tr["nframes"] += 1
    return tr


def fresh_device(tdgl, kind="tee", points=48, xi=1.0, gamma=10.0):
    """A NEW Device object (never the cached harness/devices.py ones): it is re-meshed / transformed by the history runs.
    kind: 'film' (no terminals), 'ring' (no terminals, a hole), 'bar', 'tee', 'cross'."""
    from tdgl.geometry import box, circle

    layer = tdgl.Layer(coherence_length=xi, london_lambda=2.0, thickness=0.1, gamma=gamma)
    W, H = 5.0, 3.0
    film = tdgl.Polygon("film", points=box(W, H, points=points))
    if kind in ("film", "ring"):
        holes = [tdgl.Polygon("hole", points=circle(0.6, points=16, center=(0.2, 0.1)))] if kind == "ring" else []
        return tdgl.Device(kind, layer=layer, film=film, holes=holes, terminals=[], probe_points=None, length_units="um")
    terms = [tdgl.Polygon("source", points=box(0.1, H, center=(-W / 2, 0))), tdgl.Polygon("drain", points=box(0.1, H, center=(W / 2, 0)))]
    if kind in ("tee", "cross"):
        terms.append(tdgl.Polygon("top", points=box(1.5, 0.1, center=(0, H / 2))))
    if kind == "cross":
        terms.append(tdgl.Polygon("bottom", points=box(1.5, 0.1, center=(0.3, -H / 2))))
    return tdgl.Device(kind, layer=layer, film=film, holes=[], terminals=terms, probe_points=[(-1.5, 0.0), (1.5, 0.0)], length_units="um")


def stationary_options_history(tdgl, a, tmp):
    """History on ONE SolverOptions object: it is first used with adaptive = False (a fixed-step solve, or just validate(), or it is the
    options object of a fixed-step Solution loaded from its HDF5 file), then `options.adaptive = True` and the uniform state is solved
    again.  The step clause of the observed (second) run is judged against the dt_init / dt_max LITERALS the harness constructed the
    options with (a['dt'], a['dt_max']), kept outside the object."""
    import shutil
    import tempfile

    a = dict(a, stable=False, field=0.0, currents=None, adaptive=True)
    dev = make_device(tdgl, a)
    work = tempfile.mkdtemp(prefix="opts", dir=tmp)
    try:
        opts, _ = solve_args(tdgl, dict(a, adaptive=False, solve_time=a.get("first_solve_time", 0.05)), os.path.join(work, "first.h5"))
        how = a["options_history"]
        if how == "fixed-step-solve":
            tdgl.solve(dev, opts, applied_vector_potential=0.0)
        elif how == "validate":
            opts.validate()
        elif how == "loaded-solution":
            sol = tdgl.solve(dev, opts, applied_vector_potential=0.0)
            opts = tdgl.Solution.from_hdf5(sol.path).options
        else:
            raise ValueError(how)
        opts.adaptive = True
        opts.solve_time = a["solve_time"]
        t = stationary_run(tdgl, a, tmp, dev=dev, opts=opts)
    finally:
        shutil.rmtree(work, ignore_errors=True)
    t["options_history"] = how
    t["dt_literals"] = [a["dt"], a["dt_max"]]
    t["steps_at_dt_max"] = sum(e["dts"].count("max") for e in t["ev"] if e.get("kind") == "stat")
    return t


def stationary_history(tdgl, a, tmp):
    """State that could leak between solver objects of ONE process: a solver is first constructed (and run for a few steps) on mesh
    A, then the observed undriven run is made on a TWIN mesh B that has the same triangulation (edge list) but different geometry:
    twin = 'smooth' (make_mesh(smooth=0) vs make_mesh(smooth=N)) or 'xi' (the same polygons with coherence_length 1 and 2).
    order = 'AB' observes B after A, 'BA' observes A after B.  Returns the trace of the observed run (None if the two meshes do
    not share their edge list, so that nothing is claimed)."""
    kind, mel = a.get("dev", "film"), a.get("mel", 0.8)
    dA = fresh_device(tdgl, kind, gamma=a.get("gamma", 10.0))
    dA.make_mesh(max_edge_length=mel, smooth=0)
    if a["twin"] == "smooth":
        dB = fresh_device(tdgl, kind, gamma=a.get("gamma", 10.0))
        dB.make_mesh(max_edge_length=mel, smooth=a.get("smooth", 40))
    elif a["twin"] == "xi":
        dB = fresh_device(tdgl, kind, xi=2.0, gamma=a.get("gamma", 10.0))
        dB.make_mesh(max_edge_length=mel, smooth=0)
    else:
        raise ValueError(a["twin"])
    same_edges = bool(np.array_equal(dA.mesh.edge_mesh.edges, dB.mesh.edge_mesh.edges))
    same_geometry = bool(dA.mesh.sites.shape == dB.mesh.sites.shape and np.array_equal(dA.mesh.sites, dB.mesh.sites))
    if not same_edges or same_geometry:
        return {"skipped": True, "same_edges": same_edges, "same_geometry": same_geometry, "args": a}
    first, second = (dA, dB) if a.get("order", "AB") == "AB" else (dB, dA)
    warm = dict(a, solve_time=a.get("warm_time", 0.05), screening=a.get("warm_screening", False), adaptive=False)
    w = stationary_run(tdgl, warm, tmp, dev=first)
    t = stationary_run(tdgl, a, tmp, dev=second)
    t["skipped"] = False
    t["warm_up_run_worst"] = w["worst"]
    return t


def holed_device(tdgl, a):
    """A NEW holed Device whose film outline is much coarser than the mesh (the mesher has to insert points on the film edge, also
    inside the terminals): box(6, 3, points=outline) with `holes` circular holes and terminals on the coarse edges."""
    from tdgl.geometry import box, circle

    layer = tdgl.Layer(coherence_length=1.0, london_lambda=2.0, thickness=0.1, gamma=10.0)
    W, H = 6.0, 3.0
    film = tdgl.Polygon("film", points=box(W, H, points=a.get("outline", 20)))
    last = None
    # Mesh.from_triangulation refuses some generated meshes ("Malformed Voronoi cell", coincident circumcentres): try a few
    # discretisations of the holes, in a fixed order
    for hp, f in ((21, 1.0), (16, 1.0), (12, 1.0), (24, 0.93), (18, 0.9)):
        holes = [tdgl.Polygon("hole1", points=circle(0.6, points=hp, center=((0.0, 0.0) if a.get("holes", 1) == 1 else (-1.0, 0.2))))]
        if a.get("holes", 1) >= 2:
            holes.append(tdgl.Polygon("hole2", points=circle(0.4, points=hp, center=(1.3, -0.4))))
        terms = [tdgl.Polygon("source", points=box(0.1, H, center=(-W / 2, 0))), tdgl.Polygon("drain", points=box(0.1, 2.0, center=(W / 2, 0)))]
        if a.get("terminals", 2) >= 3:
            terms.append(tdgl.Polygon("top", points=box(2.0, 0.1, center=(0.5, H / 2))))
        dev = tdgl.Device("holed", layer=layer, film=film, holes=holes, terminals=terms, probe_points=[(-2.5, 0.0), (2.5, 0.0)], length_units="um")
        try:
            dev.make_mesh(max_edge_length=a.get("mel", 0.5) * f, smooth=a.get("smooth", 0))
            return dev
        except ValueError as e:
            if "Malformed Voronoi cell" not in str(e):
                raise
            last = e
    return None


def holed_run(tdgl, a, tmp):
    dev = holed_device(tdgl, a)
    if dev is None:
        return {"skipped": True, "args": a}
    try:
        ok, frames, dev, err = run_solver(tdgl, a, tmp, dev=dev)
    except RuntimeError as e:
        if "exactly singular" in str(e):        # the pure-Neumann Poisson matrix could not be factorised on this mesh: nothing to observe
            return {"skipped": True, "args": a, "reason": repr(e)}
        raise
    t = conservation_trace(dev, a, ok, frames, err)
    em = dev.mesh.edge_mesh
    t["sites"] = int(len(dev.mesh.sites))
    t["boundary_edges"] = int(len(em.boundary_edge_indices))
    return t


def history_run(tdgl, a, tmp):
    """A HISTORY on one Device object: mesh, solve, then re-mesh with a different boundary discretisation / move / rotate /
    reflect the device, and solve again; the frames of BOTH solves are checked (one trace)."""
    import warnings

    dev = fresh_device(tdgl, a.get("dev", "tee"))
    dev.make_mesh(max_edge_length=a.get("mel", 1.0), smooth=0)
    if a["history"] == "second-solve":
        # two solve() calls on ONE TDGLSolver object: the frames of both runs are checked
        from tdgl.solver.solver import TDGLSolver

        work = tempfile.mkdtemp(prefix="runobs2", dir=tmp)
        cwd = os.getcwd()
        try:
            os.chdir(work)
            opts, kw = solve_args(tdgl, a, os.path.join(work, "out.h5"))
            solver = TDGLSolver(dev, opts, **kw)
            fr1 = read_frames(solver.solve().path)
            fr2 = read_frames(solver.solve().path)
        finally:
            os.chdir(cwd)
            shutil.rmtree(work, ignore_errors=True)
        t1 = conservation_trace(dev, a, True, fr1, None)
        t2 = conservation_trace(dev, a, True, fr2, None)
        t2["ev"] = t1["ev"] + t2["ev"]
        t2["worst_cell"] = max(t1["worst_cell"], t2["worst_cell"])
        t2["worst_term"] = max(t1["worst_term"], t2["worst_term"])
        t2["nframes"] += t1["nframes"]
        t2["second_run_frames"] = len(fr2)
        return t2
    a1 = dict(a, currents=a.get("currents_first", a["currents"]), solve_time=a.get("solve_time_first", 0.1))
    ok1, fr1, _, err1 = run_solver(tdgl, a1, tmp, dev=dev)
    t1 = conservation_trace(dev, a1, ok1, fr1, err1)
    h = a["history"]
    with warnings.catch_warnings():
        warnings.simplefilter("ignore")
        if h == "remesh":
            dev.make_mesh(max_edge_length=a.get("mel2", 0.3), smooth=a.get("smooth2", 0))
            dev2 = dev
        elif h == "translate":
            dev.translate(dx=1.25, dy=-0.5, inplace=True)
            dev2 = dev
        elif h == "translation-context":
            dev2 = dev
        elif h == "rotate":
            dev2 = dev.rotate(90.0)
            dev2.make_mesh(max_edge_length=a.get("mel2", 0.6), smooth=0)
        elif h == "reflect":
            dev2 = dev.scale(xfact=-1.0, yfact=1.5)
            dev2.make_mesh(max_edge_length=a.get("mel2", 0.6), smooth=0)
        elif h == "remesh-rotate-remesh":
            dev.make_mesh(max_edge_length=0.5, smooth=0)
            dev2 = dev.rotate(30.0)
            dev2.make_mesh(max_edge_length=0.9, smooth=0)
            dev2.terminal_info()
            dev2.make_mesh(max_edge_length=a.get("mel2", 0.3), smooth=0)
        else:
            raise ValueError(h)
    if h == "translation-context":
        # solve INSIDE `with device.translation(...)`: the mesh in force is the translated one
        with dev2.translation(0.75, 1.25):
            ok2, fr2, _, err2 = run_solver(tdgl, a, tmp, dev=dev2)
            t2 = conservation_trace(dev2, a, ok2, fr2, err2)
    else:
        ok2, fr2, _, err2 = run_solver(tdgl, a, tmp, dev=dev2)
        t2 = conservation_trace(dev2, a, ok2, fr2, err2)
    t2["ev"] = t1["ev"] + t2["ev"]
    t2["worst_cell"] = max(t1["worst_cell"], t2["worst_cell"])
    t2["worst_term"] = max(t1["worst_term"], t2["worst_term"])
    t2["nframes"] += t1["nframes"]
    t2["cfg"]["driven"] = bool(t1["cfg"]["driven"] or t2["cfg"]["driven"])
    t2["sites"] = [int(len(dev.mesh.sites)), int(len(dev2.mesh.sites))]
    return t2


# ---------------------------------------------------------------- C01: the terminals of a MESHED Device are edited (no re-mesh)
#
# Oracle geometry owned by the harness: a terminal is a vertex list (length units) that the harness wrote down; the edits are
# applied to the Device through the documented API AND to the vertex lists by the arithmetic below; membership of raw boundary
# edge midpoints / raw boundary sites is decided by the crossing-number test below.  Nothing is read back from the Device's
# terminals, Polygon.contains_points or Device.terminal_info().

AMBIGUOUS = 1e-7      # a raw boundary midpoint / site closer than this to a terminal's border makes the membership undecidable: refuse


def rect_vertices(x0, x1, y0, y1):
    return [[x0, y0], [x1, y0], [x1, y1], [x0, y1]]


def poly_contains(verts, pts):
    """even-odd (crossing number) test of pts (n, 2) against the closed polygon through verts"""
    v = np.asarray(verts, dtype=float)
    p = np.asarray(pts, dtype=float).reshape(-1, 2)
    inside = np.zeros(len(p), dtype=bool)
    x, y = p[:, 0], p[:, 1]
    for (xa, ya), (xb, yb) in zip(v, np.roll(v, -1, axis=0)):
        if ya == yb:
            continue
        crosses = (ya > y) != (yb > y)
        xc = xa + (y - ya) * (xb - xa) / (yb - ya)
        inside ^= crosses & (x < xc)
    return inside


def poly_border_distance(verts, pts):
    v = np.asarray(verts, dtype=float)
    p = np.asarray(pts, dtype=float).reshape(-1, 2)
    best = np.full(len(p), np.inf)
    for a, b in zip(v, np.roll(v, -1, axis=0)):
        ab = b - a
        t = np.clip(((p - a) @ ab) / float(ab @ ab), 0.0, 1.0)
        best = np.minimum(best, np.linalg.norm(p - (a + t[:, None] * ab), axis=1))
    return best


def terminal_geometry_raw(polys, geo, sites, xi_requested=1.0):
    """As terminal_geometry, but from the vertex lists the harness specified (polys: name -> vertices in length units)."""
    xi = float(xi_requested)
    bidx = np.nonzero(geo["boundary"])[0]
    centres = xi * geo["midpoints"][bidx]
    bsites = np.unique(geo["edges"][bidx].reshape(-1))
    pts = xi * np.asarray(sites, dtype=float)[bsites]
    out = {}
    for name, verts in polys.items():
        if min(float(poly_border_distance(verts, centres).min()), float(poly_border_distance(verts, pts).min())) < AMBIGUOUS:
            raise RuntimeError(f"terminal_geometry_raw: a boundary edge midpoint or boundary site lies on the border of terminal '{name}' "
                               f"{verts}: membership undecidable, choose other numbers for this family")
        out[name] = {"bedges": bidx[poly_contains(verts, centres)], "sites": bsites[poly_contains(verts, pts)]}
    return out


def _membership(polys, geo, sites):
    """boundary edge -> terminal name ('' = none), boundary site -> sorted names: compared before / after an edit"""
    tg = terminal_geometry_raw(polys, geo, sites)
    e, s = {}, {}
    for name, t in tg.items():
        for k in t["bedges"]:
            e[int(k)] = e.get(int(k), "") + "|" + name
        for k in t["sites"]:
            s[int(k)] = s.get(int(k), "") + "|" + name
    return e, s, {name: int(len(t["bedges"])) for name, t in tg.items()}


def _apply_edit(tdgl, dev, polys, op):
    """One edit of the terminals of `dev` through the documented API; the same edit on the harness's vertex lists by plain
    arithmetic.  -> new polys (a new dict)."""
    how = op["how"]
    polys = {n: [list(map(float, p)) for p in v] for n, v in polys.items()}
    term = {t.name: t for t in dev.terminals}
    if how == "translate":          # Polygon.translate(dx, dy, inplace=True)
        term[op["terminal"]].translate(dx=op.get("dx", 0.0), dy=op.get("dy", 0.0), inplace=True)
        polys[op["terminal"]] = [[x + op.get("dx", 0.0), y + op.get("dy", 0.0)] for x, y in polys[op["terminal"]]]
    elif how == "scale":            # Polygon.scale(xfact, yfact, origin, inplace=True)
        ox, oy = op["origin"]
        term[op["terminal"]].scale(xfact=op.get("xfact", 1.0), yfact=op.get("yfact", 1.0), origin=(ox, oy), inplace=True)
        polys[op["terminal"]] = [[ox + op.get("xfact", 1.0) * (x - ox), oy + op.get("yfact", 1.0) * (y - oy)] for x, y in polys[op["terminal"]]]
    elif how == "rotate":           # Polygon.rotate(degrees, origin, inplace=True)
        ox, oy = op["origin"]
        term[op["terminal"]].rotate(op["degrees"], origin=(ox, oy), inplace=True)
        c, s_ = math.cos(math.radians(op["degrees"])), math.sin(math.radians(op["degrees"]))
        polys[op["terminal"]] = [[ox + c * (x - ox) - s_ * (y - oy), oy + s_ * (x - ox) + c * (y - oy)] for x, y in polys[op["terminal"]]]
    elif how == "points":           # polygon.points = ...
        term[op["terminal"]].points = np.array(op["vertices"], dtype=float)
        polys[op["terminal"]] = [list(map(float, p)) for p in op["vertices"]]
    elif how == "replace":          # device.terminals = (new Polygon objects)
        dev.terminals = tuple(tdgl.Polygon(n, points=np.array(v, dtype=float)) for n, v in op["terminals"].items())
        polys = {n: [list(map(float, p)) for p in v] for n, v in op["terminals"].items()}
    elif how == "swap-names":       # the two Polygon objects exchange their names
        a_, b_ = op["terminals"]
        term[a_].set_name(b_)
        term[b_].set_name(a_)
        polys[a_], polys[b_] = polys[b_], polys[a_]
    else:
        raise ValueError(how)
    return polys


def edit_device(tdgl, a, polys):
    """A NEW Device (film box 5 x 3, optionally with a hole) whose terminals are the harness's vertex lists `polys`."""
    from tdgl.geometry import box, circle

    layer = tdgl.Layer(coherence_length=1.0, london_lambda=2.0, thickness=0.1, gamma=10.0)
    film = tdgl.Polygon("film", points=box(5.0, 3.0, points=a.get("outline", 48)))
    holes = [tdgl.Polygon("hole", points=circle(0.5, points=16, center=(0.2, 0.1)))] if a.get("hole") else []
    terms = [tdgl.Polygon(n, points=np.array(v, dtype=float)) for n, v in polys.items()]
    return tdgl.Device("edited", layer=layer, film=film, holes=holes, terminals=terms, probe_points=[(-1.5, 0.0), (1.5, 0.0)], length_units="um")


def terminal_edit_run(tdgl, a, tmp):
    """A HISTORY on one meshed Device object, a['script'] = list of
      {"op": "solve", [currents, current_ramp, ...]}     tdgl.solve on the device as it is now (frames checked, epoch recorded)
      {"op": "query", "what": "terminal_info" | "solver" | "copy"}   the device is only asked / a solver constructed / copied
      {"op": "edit", "how": translate | scale | rotate | points | replace | swap-names, ...}   terminals edited, NO re-mesh
    One trace; the injection of every checked frame is that of the terminals in force at its solve (harness vertex lists)."""
    from tdgl.solver.solver import TDGLSolver

    polys = {n: [list(map(float, p)) for p in v] for n, v in a["terminals"].items()}
    dev = edit_device(tdgl, a, polys)
    dev.make_mesh(max_edge_length=a.get("mel", 0.4), smooth=a.get("smooth", 0))
    mesh0 = dev.mesh
    sites0 = np.array(mesh0.sites)
    geo = raw_geometry(mesh0.sites, mesh0.elements, mesh0.edge_mesh.edges)
    nedits = sum(1 for op in a["script"] if op["op"] == "edit")
    tr = {"cfg": {"adaptive": bool(a.get("adaptive", False)), "window": int(a.get("window", 3)), "driven": False,
                  "screening": bool(a.get("screening", False)), "edits": nedits},
          "ev": [], "args": a, "error": None, "worst_cell": 0.0, "worst_term": 0.0, "nframes": 0, "edits": [], "covered": [],
          "frames_per_epoch": {}}
    epoch = 0
    for op in a["script"]:
        if op["op"] == "solve":
            a_s = dict(a, **{k: v for k, v in op.items() if k != "op"})
            ok, fr, _, err = run_solver(tdgl, a_s, tmp, dev=dev)
            t = conservation_trace(dev, a_s, ok, fr, err, polys=polys, epoch=epoch)
            tr["ev"] += t["ev"]
            tr["worst_cell"] = max(tr["worst_cell"], t["worst_cell"])
            tr["worst_term"] = max(tr["worst_term"], t["worst_term"])
            tr["nframes"] += t["nframes"]
            tr["frames_per_epoch"][str(epoch)] = tr["frames_per_epoch"].get(str(epoch), 0) + t["nframes"]
            tr["cfg"]["driven"] = bool(tr["cfg"]["driven"] or t["cfg"]["driven"])
            tr["error"] = tr["error"] or t["error"]
            tr.setdefault("package_vs_raw", t.get("package_vs_raw"))
        elif op["op"] == "query":
            if op["what"] == "terminal_info":
                dev.terminal_info()
            elif op["what"] == "solver":
                opts, kw = solve_args(tdgl, a, None)
                TDGLSolver(dev, opts, **kw)
            elif op["what"] == "copy":
                dev = dev.copy(with_mesh=True)
            else:
                raise ValueError(op["what"])
            tr["ev"].append({"kind": "query", "what": op["what"]})
        elif op["op"] == "edit":
            e0, s0, _ = _membership(polys, geo, sites0)
            polys = _apply_edit(tdgl, dev, polys, op)
            e1, s1, cover = _membership(polys, geo, sites0)
            if min(cover.values()) < 2:
                raise RuntimeError(f"terminal_edit_run: after {op} a terminal covers fewer than 2 boundary edges ({cover}): choose other numbers")
            changed = sum(1 for k in set(e0) | set(e1) if e0.get(k) != e1.get(k))
            moved = sum(1 for k in set(s0) | set(s1) if s0.get(k) != s1.get(k))
            tr["ev"].append({"kind": "edit", "how": op["how"], "changed": int(changed), "sites": int(moved)})
            tr["edits"].append({"how": op["how"], "boundary_edges_changed": int(changed), "boundary_sites_changed": int(moved)})
            tr["covered"].append(cover)
            epoch += 1
        else:
            raise ValueError(op["op"])
        # the history never re-meshes: the mesh (coordinates and triangles) must still be the one generated at the start
        if dev.mesh is None or not (np.array_equal(np.asarray(dev.mesh.sites), sites0)
                                    and np.array_equal(np.asarray(dev.mesh.elements), np.asarray(mesh0.elements))):
            raise RuntimeError("terminal_edit_run: the mesh changed during a history that never re-meshes")
    return tr


# ---------------------------------------------------------------- acceptance of balanced assignments


def acceptance_calls(tdgl, args, tmp=None):
    """args: dict(assignments=[(den, [nums...]), ...], unit systems...).  Each assignment is handed to the REAL
    TDGLSolver constructor on a device with as many terminals; returns one 'ctor' trace per assignment."""
    from tdgl.solver.solver import TDGLSolver

    out = []
    for den, nums in args["assignments"]:
        kind = {2: "bar", 3: "tee", 4: "cross"}[len(nums)]
        dev = devices.make(tdgl, kind, mel=1.2)
        names = [t.name for t in dev.terminals]
        vals = {n: v / den for n, v in zip(names, nums)}
        opts = tdgl.SolverOptions(solve_time=1.0, dt_init=2.0 ** -6, adaptive=False, current_units=args.get("current_units", "uA"),
                                  field_units="mT", output_file=None)
        try:
            TDGLSolver(dev, opts, terminal_currents=vals)
            acc, err = True, None
        except ValueError as e:
            if not re.search(r"sum of all terminal currents", str(e)):
                raise
            acc, err = False, str(e)
        out.append({"cfg": {"adaptive": False, "window": 0, "driven": False, "screening": False},
                    "ev": [{"kind": "ctor", "nums": list(nums), "den": den, "accepted": acc}], "currents": vals, "error": err})
    return out


def to_tlc(tr):
    ev = []
    for e in tr["ev"]:
        e = dict(e)
        if e["kind"] == "cons":
            e["terms"] = [{k: v for k, v in t.items() if k != "name"} for t in e["terms"]]
        ev.append(e)
    return {"cfg": tr["cfg"], "ev": ev}


_I = re.compile(r'<<"I", (\d+), <<([-\d, ]*)>>>>')


def parse_assignments(tlc_result):
    out = set()
    for line in tlc_result.printed():
        m = _I.match(line)
        if m:
            out.add((int(m.group(1)), tuple(int(x) for x in m.group(2).split(","))))
    return sorted(out)


ONESTEP_INV = ["TypeOK", "InstancesWellFormed", "ConservationDefectEqualsPoissonResidual", "LapIsDivGrad", "FluxesCancelPairwise",
               "TotalInjectionIsTotalResidual", "BoundaryShares", "TerminalInflowIsRequestedCurrent", "BalancedAccepted", "RowSumsZero",
               "NoGradientOfConstant", "UniformStateStationary", "ZeroPotentialSolves", "AdaptiveStepGrowsToMax"]


def onestep_cfg(invariants, **mech):
    m = dict(MSumOthers=True, MEpsMinus=True, MJnWithDA=True, MNeumannHalf=True, EmitCurrents=False)
    m.update(mech)
    return ("CONSTANTS\n" + "".join(f" {k} = {'TRUE' if v else 'FALSE'}\n" for k, v in m.items()) + "SPECIFICATION Spec\n"
            + "".join(f"INVARIANT {i}\n" for i in invariants) + "CHECK_DEADLOCK FALSE\n")


def tlc_traces(ctx, traces, cfg_text, name, count=True):
    """ctx.validate_traces with a larger Java thread stack (frames with > ~130 cells overflow TLC's default stack when the
    nested JSON value is evaluated); same contract: returns (accepted 0-based ids, TlcResult)."""
    import json as _json
    from . import core

    tdir = ctx.tmp / "traces"
    tdir.mkdir(exist_ok=True)
    tf = tdir / f"batch_{len(list(tdir.iterdir()))}.json"
    tf.write_text(_json.dumps(traces))
    r = core.run_tlc("RunObs", cfg_text, ctx.tmp / "tlc", workers=1, timeout=900, env={"TRACE_FILE": str(tf)}, java_opts=("-Xss256m",))
    ctx.cov["models"].append({"model": name + " (trace validation)", "traces": len(traces), "distinct_states": r.distinct,
                              "states_generated": r.generated, "wall_s": round(r.wall, 2), "violated": r.violated})
    if r.errors or (not r.finished and not r.violated):
        raise core.MachineryFailure(f"{name}: TLC failed on traces: {r.errors[:3]}\n{r.out[-3000:]}")
    accepted = set()
    for line in r.printed():
        m = re.match(r'<<"ACCEPT", (\d+)>>', line)
        if m:
            accepted.add(int(m.group(1)) - 1)
    if count:
        ctx.cov["states"] += r.distinct
        ctx.cov["transitions"] += r.generated
    return accepted, r


def validate(ctx, traces, what, describe, known=False):
    """Validate run traces with RunObs; report rejected ones (clauses named by TLC).  Returns accepted ids."""
    from . import core

    norm = [to_tlc(t) for t in traces]
    accepted, r = tlc_traces(ctx, norm, cfg(True, known), f"RunObs[{what}]")
    if "NonVacuous" in r.violated:
        raise core.MachineryFailure(f"{what}: a driven run produced no checked frame with a requested current (vacuous)")
    if "EditsReached" in r.violated:
        raise core.MachineryFailure(f"{what}: a history of terminal edits did not reach its configuration (an edit moved no boundary edge, a frame "
                                    "was not judged against the terminals in force, or no driven solve followed the last edit)")
    ctx.cov["traces_validated_against_impl"] += len(accepted)
    rejected = [n for n in range(len(norm)) if n not in accepted]
    clauses = {}
    if rejected:
        _, r2 = tlc_traces(ctx, [norm[n] for n in rejected], diagnosis_cfg(), f"RunObs[{what} diagnosis]", count=False)
        for line in r2.printed():
            if line.startswith('<<"CLAUSES"'):
                v = core.parse_tla_value(line)
                clauses[rejected[v[1] - 1]] = [c for c, bit in zip(CLAUSES, v[2:]) if bit]
    return accepted, rejected, clauses, norm


def observed(tdgl, a, tmp):
    """Run the job a['job'] (conservation_run / history_run / holed_run).  An exception that comes out of the code under test
    (anything not raised by this harness) is an OBSERVATION of the run -- the trace then holds the single event 'raised', which no
    action of RunObs matches -- never a failure of the machinery: verdicts first."""
    import traceback

    from . import core

    func = globals()[a["job"]]
    try:
        return func(tdgl, a, tmp)
    except Exception as e:
        tb = traceback.extract_tb(e.__traceback__)
        if tb and str(tb[-1].filename).startswith(str(core.VERIF)):
            raise            # raised by the harness itself (e.g. an observation it cannot read): machinery
        return {"cfg": {"adaptive": bool(a.get("adaptive", False)), "window": int(a.get("window", 3)), "driven": False,
                        "screening": bool(a.get("screening", False))},
                "ev": [{"kind": "raised"}], "args": a, "raised": repr(e)[:500], "where": f"{tb[-1].filename}:{tb[-1].lineno}" if tb else "?",
                "error": None, "worst_cell": 0.0, "worst_term": 0.0, "nframes": 0}
