"""Real solver runs observed frame by frame (hashes or quantised observables) for the
Twin specification (C09, C11; C04, C08 use quantised observables)."""
from __future__ import annotations

import hashlib
import os
import shutil
import tempfile

import h5py
import numpy as np

from . import core, devices

DATASETS = ["psi", "mu", "supercurrent", "normal_current", "induced_vector_potential"]


def frame_hash(g, names=DATASETS):
    h = hashlib.sha256()
    for nm in names:
        a = np.ascontiguousarray(np.array(g[nm]))
        h.update(nm.encode() + str(a.dtype).encode() + str(a.shape).encode())
        h.update(a.tobytes())
    return h.hexdigest()[:16]


def mesh_hash(g):
    h = hashlib.sha256()

    def visit(name, obj):
        if isinstance(obj, h5py.Dataset):
            a = np.ascontiguousarray(np.array(obj))
            h.update(name.encode() + str(a.dtype).encode() + str(a.shape).encode() + a.tobytes())
    g.visititems(visit)
    return h.hexdigest()[:16]


def read_run(path, extra_names=()):
    """-> dict(frames=[{step, time, hash, records:{name: list}}], mesh=hash, fixed={name: hash})"""
    out = {"frames": [], "mesh": None, "records": {}}
    with h5py.File(path, "r") as f:
        out["mesh"] = mesh_hash(f["mesh"] if "mesh" in f else f["solution/device/mesh"])
        for key in sorted(f["data"], key=int):
            g = f["data"][key]
            names = list(DATASETS) + [n for n in extra_names if n in g]
            fr = {"idx": int(key), "step": int(g.attrs["step"]), "time": float(g.attrs["time"]).hex(),
                  "hash": frame_hash(g, names)}
            if "running_state" in g:
                fr["rs"] = {nm: hashlib.sha256(np.ascontiguousarray(np.array(g["running_state"][nm])).tobytes()).hexdigest()[:12]
                            for nm in g["running_state"]}
                fr["dts"] = [float(x).hex() for x in np.atleast_1d(np.array(g["running_state"]["dt"])).reshape(-1) if x > 0]
            out["frames"].append(fr)
    return out


def frame_hash_of_solution(sol):
    """hash of the arrays a seed Solution hands to a continuation (its in-memory TDGLData)"""
    d = sol.tdgl_data
    h = hashlib.sha256()
    for nm in ("psi", "mu", "supercurrent", "normal_current", "induced_vector_potential"):
        arr = np.ascontiguousarray(np.asarray(getattr(d, nm)))
        h.update(nm.encode() + str(arr.dtype).encode() + arr.tobytes())
    return h.hexdigest()[:16]


def inspect_solution(sol):
    """Look at a Solution through its documented post-processing accessors (observing a result must not change the
    device or mesh it shares with later simulations).  Accessors that raise in this environment are tolerated."""
    import numpy as _np
    pts = _np.array([[0.0, 0.0], [0.7, -0.4]])
    calls = [lambda: sol.magnetic_moment(), lambda: sol.current_density, lambda: sol.vorticity,
             lambda: sol.field_at_position(_np.array([[0.0, 0.0, 1.0], [0.5, 0.5, 2.0]])),
             lambda: sol.field_at_position(pts, zs=1.0, vector=True), lambda: sol.vector_potential_at_position(pts, zs=0.5),
             lambda: sol.interp_current_density(pts), lambda: sol.interp_order_parameter(pts),
             lambda: sol.grid_current_density(grid_shape=(20, 20)), lambda: sol.boundary_phases(),
             lambda: sol.current_through_path(_np.array([[-1.0, -1.0], [-1.0, 1.0]])),
             lambda: sol.polygon_fluxoid(_np.array([[-1, -1], [1, -1], [1, 1], [-1, 1], [-1, -1.0]])),
             lambda: setattr(sol, "solve_step", 0), lambda: setattr(sol, "solve_step", -1), lambda: sol.times, lambda: sol.dynamics.mean_voltage()]
    n_ok = 0
    for c in calls:
        try:
            c()
            n_ok += 1
        except Exception:      # noqa: BLE001 - several accessors raise under NumPy 2 on the unchanged tree
            pass
    return n_ok


def build_device(tdgl, a):
    dev = devices.make(tdgl, a.get("dev", "bar"), probes=2, mel=a.get("mel", 0.8), xi=a.get("xi", 1.0))
    probes = a.get("probes", 2)
    if probes != 2:
        pp = {0: None, 3: [(-1.5, 0.0), (0.0, 0.8), (1.5, 0.0)]}[probes]
        d2 = tdgl.Device(dev.name, layer=dev.layer, film=dev.film, holes=dev.holes, terminals=list(dev.terminals),
                         probe_points=pp, length_units=dev.length_units)
        d2.mesh = dev.mesh          # same mesh object: only the observation differs
        dev = d2
    return dev


def drive(tdgl, a):
    kw = {}
    cur = a.get("current", 0.0)
    if a.get("dev", "bar") != "film" and a.get("dev") != "ring":
        base = devices.balanced_currents(a.get("dev", "bar"), cur)
        if a.get("current_ramp"):
            T = a["current_ramp"]
            kw["terminal_currents"] = lambda t, base=base, T=T: {k: v * min(1.0, t / T) for k, v in base.items()}
        else:
            kw["terminal_currents"] = base
    field = a.get("field", 0.0)
    if a.get("field_ramp"):
        from tdgl.sources import ConstantField, LinearRamp
        kw["applied_vector_potential"] = ConstantField(field, field_units="mT", length_units="um") * LinearRamp(tmin=0, tmax=a["field_ramp"])
    else:
        kw["applied_vector_potential"] = field
    if a.get("epsilon") is not None:
        kw["disorder_epsilon"] = a["epsilon"]
    return kw


def options(tdgl, a, output_file):
    o = dict(solve_time=a["solve_time"], skip_time=a.get("skip_time", 0.0), dt_init=a.get("dt", 2.0 ** -6),
             dt_max=a.get("dt_max", 0.1), adaptive=a.get("adaptive", False), adaptive_window=a.get("window", 3),
             save_every=a.get("k", 1), progress_interval=a.get("progress", 10 ** 9), pause_on_interrupt=a.get("pause", False),
             monitor=a.get("monitor", False), monitor_update_interval=0.01,
             output_file=output_file, include_screening=a.get("screening", False), field_units="mT", current_units="uA",
             terminal_psi=a.get("terminal_psi", 0.0), screening_tolerance=a.get("screening_tol", 1e-3))
    return tdgl.SolverOptions(**o)


def solve_frames(tdgl, a, tmp):
    """One real solve (optionally resumed in `a['split']` pieces); returns its observed frames."""
    work = tempfile.mkdtemp(prefix="twin", dir=tmp)
    cwd = os.getcwd()
    old_tempdir = tempfile.tempdir
    if a.get("threads"):
        import numba
        numba.set_num_threads(a["threads"])
    from tdgl.solver import runner as _runner_mod
    _real_popen = _runner_mod.subprocess.Popen
    launched = []
    if a.get("monitor"):
        # monitor=True is one more way of observing a run: the live-monitor process is not started here (it would
        # need a display); everything the solver does for it (SWMR channel, environment variable) is real
        def _no_monitor(cmd, *args, **kw):
            if isinstance(cmd, (list, tuple)) and "tdgl.visualize" in [str(c) for c in cmd]:
                launched.append([str(c) for c in cmd])
                return None
            return _real_popen(cmd, *args, **kw)
        _runner_mod.subprocess.Popen = _no_monitor
    try:
        os.chdir(work)
        tempfile.tempdir = work
        dev = build_device(tdgl, a)
        kw = drive(tdgl, a)
        for pre in a.get("prelude", []):
            # history of the process: OTHER simulations run first on the same device / mesh object (and copies of
            # it); nothing of them may leak into the observed run
            pa = dict(a, **pre)
            pdev = dev.copy() if pre.get("on_copy") else dev
            psol = tdgl.solve(pdev, options(tdgl, pa, os.path.join(work, f"prelude{len(os.listdir(work))}.h5")), **drive(tdgl, pa))
            if pre.get("inspect") and psol is not None:
                inspect_solution(psol)
        pieces = a.get("split") or [a["solve_time"]]
        seed = None
        offset = 0
        frames = []
        mesh = None
        for n, T in enumerate(pieces):
            path = os.path.join(work, f"piece{n}.h5") if (a.get("out", "path") == "path" or len(pieces) > 1) else None
            o = options(tdgl, dict(a, solve_time=T, skip_time=(a.get("skip_time", 0.0) if n == 0 else 0.0)), path)
            captured = {}
            if path is None:
                # output in a temporary directory: copy the file before the handler removes it
                from tdgl.solver import runner as runner_mod
                orig_close = runner_mod.DataHandler.close

                def w_close(self, orig_close=orig_close):
                    self.output_file.flush()
                    captured["p"] = os.path.join(work, f"copy{n}.h5")
                    shutil.copy(self.output_path, captured["p"])
                    return orig_close(self)
                runner_mod.DataHandler.close = w_close
            try:
                sol = tdgl.solve(dev, o, seed_solution=seed, **kw)
            except Exception as e:      # noqa: BLE001
                # the observed run of a well-posed input did not complete: that is an observation about the code under
                # test (other runs of the same physics complete), not a failure of the harness
                return {"args": a, "frames": frames, "mesh": mesh or "none", "outcome": "raised:" + type(e).__name__,
                        "monitor_launched": len(launched)}
            finally:
                if path is None:
                    runner_mod.DataHandler.close = orig_close
            r = read_run(sol.path if path is not None else captured["p"], extra_names=("applied_vector_potential", "epsilon"))
            mesh = r["mesh"]
            for fr in r["frames"]:
                if n > 0 and fr["step"] == 0:
                    # the first frame of a resumed piece is the seed: it must equal the last frame of the previous piece
                    fr = dict(fr, seed_frame=True)
                frames.append(dict(fr, step=fr["step"] + offset, piece=n))
            prev_offset = offset
            offset = frames[-1]["step"]
            prev_seed = seed
            seed = sol
            # "a saved final state": the seed is the returned object, or the same state read back from its file,
            # or from a copy written with Solution.to_hdf5 (all ordinary ways of continuing a run)
            form = a.get("seed_form", "memory")
            if form == "reloaded":
                seed = tdgl.Solution.from_hdf5(sol.path)
            elif form == "reloaded_last":
                seed = tdgl.Solution.from_hdf5(sol.path, solve_step=-1)
            elif form == "resaved":
                cp = os.path.join(work, f"seedcopy{n}.h5")
                sol.to_hdf5(cp)
                seed = tdgl.Solution.from_hdf5(cp)
            elif form == "reloaded_device":
                # a new session: the seed is read back from its file and the continuation runs on the device stored in it
                seed = tdgl.Solution.from_hdf5(sol.path)
                dev = seed.device
            elif form == "cursor_moved":
                sol.solve_step = 0          # history on the seed object: the cursor was moved and moved back
                sol.solve_step = -1
        if a.get("seed_twice") and len(pieces) > 1:
            # history on the seed object: a SECOND continuation from the same in-memory seed Solution must
            # reproduce the first one bit for bit (same observation keys), and the seed must be unchanged
            n = len(pieces) - 1
            before = frame_hash_of_solution(prev_seed)
            path = os.path.join(work, f"piece{n}_again.h5")
            o = options(tdgl, dict(a, solve_time=pieces[n], skip_time=0.0, k=a.get("k2", a.get("k", 1))), path)
            sol2 = tdgl.solve(dev, o, seed_solution=prev_seed, **kw)
            r2 = read_run(sol2.path, extra_names=("applied_vector_potential", "epsilon"))
            for fr in r2["frames"]:
                frames.append(dict(fr, step=fr["step"] + prev_offset, piece=n, again=True))
            after = frame_hash_of_solution(prev_seed)
            frames.append({"idx": -1, "step": -1, "time": "seed", "hash": before, "piece": n, "seed_before": True})
            frames.append({"idx": -1, "step": -1, "time": "seed", "hash": after, "piece": n, "seed_after": True})
        return {"args": a, "frames": frames, "mesh": mesh, "monitor_launched": len(launched), "outcome": "returned"}
    finally:
        _runner_mod.subprocess.Popen = _real_popen
        tempfile.tempdir = old_tempdir
        os.chdir(cwd)
        shutil.rmtree(work, ignore_errors=True)


class Interner:
    def __init__(self):
        self.ids = {}

    def __call__(self, h):
        return self.ids.setdefault(h, len(self.ids) + 1)


def twin_cfg():
    return "SPECIFICATION Spec\nINVARIANT Accepted\nINVARIANT OneDefinitionPerKey\nCHECK_DEADLOCK FALSE\n"


def validate_twin(ctx, traces, what):
    """traces: list of dict(tol, minruns, ev=[{run, key, q}], label).  Returns accepted ids."""
    norm = [{"tol": t["tol"], "minruns": t["minruns"], "ev": t["ev"]} for t in traces]
    accepted, r = ctx.validate_traces("Twin", norm, twin_cfg(), name=f"Twin[{what}]")
    if "Accepted" in r.violated:
        raise core.MachineryFailure(f"Twin[{what}]: a trace compares fewer runs than required (vacuous)")
    ctx.cov["traces_validated_against_impl"] += sum(len({e["run"] for e in traces[n]["ev"]}) for n in accepted)
    for n, t in enumerate(traces):
        if n in accepted:
            continue
        far, violated, tail = ctx.diagnose_trace("Twin", norm[n], twin_cfg())
        ev = t["ev"][far - 1] if 0 < far <= len(t["ev"]) else None
        first = next((e for e in t["ev"] if ev and e["key"] == ev["key"]), None)
        ctx.violation(f"{what}:{t.get('label', n)}:{ev['key'] if ev else '?'}",
                      f"{what}: runs disagree on {ev['key'] if ev else '?'}: run {first['run'] if first else '?'} observed {first['q'] if first else '?'}, "
                      f"run {ev['run'] if ev else '?'} observed {ev['q'] if ev else '?'} (tolerance {t['tol']} quanta); family: {t.get('label')}",
                      {"trace": t, "stuck_at": far})
    return accepted
