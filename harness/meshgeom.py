"""Binding of spec/MeshGeom.tla to the real mesh code (C07).

exact_traces : integer instances exported by TLC (MeshGeom!Emit) -> Mesh.from_triangulation -> what the code
               computed (edges, boundary flags, directions, centres, lengths, dual/edge ratios, areas), quantised,
               together with the same quantities from the reference numerics `ref_cot` below; TLC recomputes the
               exact rationals from (P, T) and compares (so the reference is itself validated by TLC's numbers).
gen_trace    : Device.make_mesh on documented primitives; the mesh is recorded as a one-state trace of quantised
               integers with incidence witnesses; MeshGeom!GenAll decides.  The per-site / per-edge cotangent
               values come from `ref_cot` (float64), the chain is TLA+ definition <-> ref_cot (exact instances)
               -> abstraction on generated meshes (DESIGN.md 4.3).
Python never judges: it concretises, records and abstracts.
"""
from __future__ import annotations

import json
import math

import numpy as np

from . import core

Q_EXACT = 10 ** 6
BOT = 10 ** 9 + 7


def model_cfg(b, invariants):
    return ("CONSTANTS\n BasisIds = {%s}\n Families = {%s}\n Offsets = {%s}\n" % (
        ", ".join(map(str, b["BasisIds"])), ", ".join('"%s"' % f for f in b["Families"]), ", ".join(map(str, b["Offsets"])))
        + "SPECIFICATION Spec\n" + "".join(f"INVARIANT {i}\n" for i in invariants) + "CHECK_DEADLOCK FALSE\n")


THEOREMS = ["InvOrientation", "InvIncidence", "InvEuler", "InvAreasTile", "InvWellCentred", "InvRingHasHole"]
CLAUSES_EXACT = ["C_ExactNoException", "C_ExactEdges", "C_ExactBoundary", "C_ExactEdgeVectors", "C_ExactDualLengths",
                 "C_ExactCellAreas", "C_ExactReference"]
CLAUSES_GEN = ["C_GenOrientation", "C_GenIncidence", "C_GenBoundaryFlags", "C_GenBoundaryIsOutline", "C_GenEuler",
               "C_GenTiling", "C_GenCellAreas", "C_GenDualLengths", "C_GenEdgeVectors", "C_GenTerminals",
               "C_GenMostlyWellCentred"]


def trace_cfg(invariants=()):
    return ('CONSTANTS\n BasisIds = {}\n Families = {}\n Offsets = {}\nSPECIFICATION TSpec\nINVARIANT Accepted\n'
            + "".join(f"INVARIANT {i}\n" for i in invariants) + "CHECK_DEADLOCK FALSE\n")


def parse_instances(r):
    out = []
    for line in r.printed():
        if line.startswith('"{'):
            out.append(json.loads(json.loads(line)))
    return out


# ------------------------------------------------------------------ reference numerics (validated by TLC on exact instances)


def ref_cot(S, T):
    """Cotangent weights, circumcentric cell areas and regularity flags of a triangulation (0-based T).
    Returns edges (sorted pairs, lexicographic), W per edge, area per site, well-centred flag per site,
    regular flag per edge, incident triangles per edge."""
    S = np.asarray(S, dtype=float)
    T = np.asarray(T, dtype=int)
    inc = {}
    for t, tri in enumerate(T):
        for a in range(3):
            i, j, k = int(tri[a]), int(tri[(a + 1) % 3]), int(tri[(a + 2) % 3])
            u, v = S[i] - S[k], S[j] - S[k]
            cot = float(u @ v) / float(u[0] * v[1] - u[1] * v[0])
            inc.setdefault((min(i, j), max(i, j)), []).append((t, cot))
    edges = sorted(inc)
    W = np.array([sum(c for _, c in inc[e]) / 2 for e in edges])
    area = np.zeros(len(S))
    for n, (i, j) in enumerate(edges):
        c = float(((S[i] - S[j]) ** 2).sum()) * W[n] / 4
        area[i] += c
        area[j] += c
    eps = 1e-12
    ereg = np.array([(inc[e][0][1] >= -eps) if len(inc[e]) == 1 else (W[n] >= -eps) for n, e in enumerate(edges)])
    wc = np.ones(len(S), dtype=bool)
    eidx = {e: n for n, e in enumerate(edges)}
    for t, tri in enumerate(T):
        for a in range(3):
            i, j = int(tri[a]), int(tri[(a + 1) % 3])
            e = (min(i, j), max(i, j))
            cot = dict(inc[e])[t]
            if len(inc[e]) == 1:
                if cot < -eps:           # encroached boundary edge: spoils every site of this triangle
                    wc[list(map(int, tri))] = False
            elif W[eidx[e]] < -eps:      # not locally Delaunay: spoils the two end points
                wc[[i, j]] = False
    return edges, W, area, wc, ereg, [[t for t, _ in inc[e]] for e in edges]


def _exact_int(x):
    r = round(float(x))
    return int(r) if float(x) == r else BOT


def _q(x, Q):
    v = float(x) * Q
    if not math.isfinite(v) or abs(v) > 2 * 10 ** 9:
        return BOT
    return int(round(v))


# ------------------------------------------------------------------ exact binding


def exact_observation(tdgl, inst):
    from tdgl.finite_volume.mesh import Mesh

    exp = inst["exp"]
    P = np.array(exp["P"], dtype=float)
    T0 = np.array(exp["T"], dtype=int) - 1
    ob = {"exc": "none", "Q": Q_EXACT, "E": [], "B": [], "BS": [], "D": [], "C2": [], "L2": [], "R": [], "A": [],
          "refW": [], "refA": [], "refWC": [], "refER": []}
    try:
        m = Mesh.from_triangulation(P, T0)
    except Exception as ex:  # an exception class is an observation
        ob["exc"] = type(ex).__name__
        ob["msg"] = str(ex)[:100]
        return {"kind": "exact", "P": exp["P"], "T": exp["T"], "ob": ob, "key": inst_key(inst)}
    em = m.edge_mesh
    bset = set(int(x) for x in em.boundary_edge_indices)
    ob["E"] = [[int(a) + 1, int(b) + 1] for a, b in em.edges]
    ob["B"] = [n in bset for n in range(len(em.edges))]
    bs = set(int(x) for x in m.boundary_indices)
    ob["BS"] = [i in bs for i in range(len(P))]
    ob["D"] = [[_exact_int(d[0]), _exact_int(d[1])] for d in em.directions]
    ob["C2"] = [[_exact_int(2 * c[0]), _exact_int(2 * c[1])] for c in em.centers]
    ob["L2"] = [_q(x * x, Q_EXACT) for x in em.edge_lengths]
    ob["R"] = [_q(d / e, Q_EXACT) for d, e in zip(em.dual_edge_lengths, em.edge_lengths)]
    ob["A"] = [_q(a, Q_EXACT) for a in m.areas]
    edges, W, area, wc, ereg, _ = ref_cot(P, T0)
    pos = {e: n for n, e in enumerate(edges)}
    order = [pos[(min(a, b) - 1, max(a, b) - 1)] for a, b in ob["E"]] if all(
        (min(a, b) - 1, max(a, b) - 1) in pos for a, b in ob["E"]) else list(range(len(ob["E"])))
    ob["refW"] = [_q(W[n], Q_EXACT) for n in order]
    ob["refER"] = [bool(ereg[n]) for n in order]
    ob["refA"] = [_q(a, Q_EXACT) for a in area]
    ob["refWC"] = [bool(x) for x in wc]
    return {"kind": "exact", "P": exp["P"], "T": exp["T"], "ob": ob, "key": inst_key(inst)}


def inst_key(inst):
    return f"{inst['name']} basis={inst['b']} offset={inst['o']} {inst['m']}x{inst['n']} sites={len(inst['exp']['P'])} tris={len(inst['exp']['T'])}"


def exact_traces(tdgl, args, tmp):
    out = []
    for inst in args["instances"]:
        t = exact_observation(tdgl, inst)
        # python-side diff against the exported expectation (diagnostics only)
        exp, ob = inst["exp"], t["ob"]
        t["pydiff"] = None
        if ob["exc"] == "none":
            want = {(e["i"], e["j"]): e for e in exp["E"]}
            for n, (a, b) in enumerate(ob["E"]):
                e = want.get((min(a, b), max(a, b)))
                if e is None:
                    t["pydiff"] = f"edge {(a, b)} is not an edge of the model"
                    break
                w = e["w"][0] / e["w"][1]
                if abs(ob["R"][n] / Q_EXACT - w) > 3e-6 or ob["B"][n] != e["b"]:
                    t["pydiff"] = f"edge {(a, b)}: dual/edge {ob['R'][n] / Q_EXACT} boundary {ob['B'][n]}, model {w} ({e['w']}) boundary {e['b']}"
                    break
            if t["pydiff"] is None:
                for i, a in enumerate(exp["A"]):
                    if abs(ob["A"][i] / Q_EXACT - a[0] / a[1]) > 3e-6:
                        t["pydiff"] = f"site {i + 1}: area {ob['A'][i] / Q_EXACT}, model {a[0] / a[1]} ({a})"
                        break
        out.append(t)
    return out


# ------------------------------------------------------------------ generated meshes


def _poly(tdgl, spec, name):
    """A Polygon from a small description (documented primitives only)."""
    from tdgl.geometry import box, circle, ellipse

    k = spec["kind"]
    c = tuple(spec.get("center", (0, 0)))
    if k == "box":
        pts = box(spec["w"], spec["h"], points=spec.get("points", 40), center=c, angle=spec.get("angle", 0))
    elif k == "circle":
        pts = circle(spec["r"], points=spec.get("points", 24), center=c)
    elif k == "ellipse":
        pts = ellipse(spec["a"], spec["b"], points=spec.get("points", 32), center=c, angle=spec.get("angle", 0))
    else:
        raise ValueError(k)
    if spec.get("reverse"):
        pts = pts[::-1]
    p = tdgl.Polygon(name, points=pts)
    for u in spec.get("union", []):
        p = p.union(_poly(tdgl, u, name))
    for u in spec.get("minus", []):
        p = p.difference(_poly(tdgl, u, name))
    if spec.get("resample"):
        p = p.resample(spec["resample"])
    p.name = name
    return p


def gen_trace(tdgl, args, tmp):
    """Build the device, generate the mesh, record the one-state trace."""
    from shapely.geometry import LinearRing, Point

    xi = float(args.get("xi", 1.0))
    layer = tdgl.Layer(coherence_length=xi, london_lambda=2.0 * xi, thickness=0.1)
    film = _poly(tdgl, args["film"], "film")
    holes = [_poly(tdgl, h, f"hole{k}") for k, h in enumerate(args.get("holes", []))]
    terms = [_poly(tdgl, t, f"term{k}") for k, t in enumerate(args.get("terminals", []))]
    key = json.dumps(args, sort_keys=True)
    # the description must be a well-formed device: holes strictly inside the film and apart from each other
    # (Triangle crashes the process on holes that touch the outline; such inputs are not documented geometries)
    for k, h in enumerate(holes):
        if not film.polygon.contains(h.polygon) or film.polygon.exterior.distance(h.polygon) < 0.05 \
                or any(h.polygon.distance(o.polygon) < 0.05 for o in holes[:k]):
            return {"kind": "invalid", "key": key}
    dev = tdgl.Device("dev", layer=layer, film=film, holes=holes, terminals=terms, length_units=args.get("units", "um"))
    try:
        dev.make_mesh(**args.get("mesh", {}))
    except Exception as ex:
        return {"kind": "refused", "exc": type(ex).__name__, "msg": str(ex)[:160], "key": key}
    m = dev.mesh
    pts = np.asarray(dev.points, dtype=float)           # length units
    tri = np.asarray(dev.triangles, dtype=int)
    edges = np.asarray(dev.edges, dtype=int)
    nsites = len(pts)
    lo, hi = pts.min(axis=0), pts.max(axis=0)
    c0 = (lo + hi) / 2
    U = 1000.0                                            # quanta per length unit
    span = float((hi - lo).max())
    if span * U > 2.0e4:                                  # keep cross products below 2^31
        U = 10.0 ** math.floor(math.log10(2.0e4 / span))
    q = lambda xy: [int(round((xy[0] - c0[0]) * U)), int(round((xy[1] - c0[1]) * U))]
    g = {"kind": "gen", "key": key, "holes": len(holes), "U": U, "nsites": nsites}
    g["P"] = [q(p) for p in pts]
    g["T"] = [[int(a) + 1 for a in t] for t in tri]
    g["E"] = [[int(a) + 1, int(b) + 1] for a, b in edges]
    # incidence witness
    inc = {}
    for t, (a, b, c) in enumerate(tri):
        for i, j in ((a, b), (b, c), (c, a)):
            inc.setdefault((min(i, j), max(i, j)), []).append(t + 1)
    g["ET"] = [inc.get((min(a, b), max(a, b)), []) for a, b in edges]
    bset = set(int(x) for x in m.edge_mesh.boundary_edge_indices)
    g["B"] = [n in bset for n in range(len(edges))]
    bs = set(int(x) for x in m.boundary_indices)
    g["BS"] = [i in bs for i in range(nsites)]
    # outline membership (independent of tdgl: shapely distance to the outline rings)
    rings = [LinearRing(film.points)] + [LinearRing(h.points) for h in holes]
    tol = 1e-9 * max(1.0, span)
    on = lambda xy: any(r.distance(Point(xy)) <= tol for r in rings)
    g["OS"] = [bool(on(p)) for p in pts]
    g["OE"] = [bool(on((pts[a] + pts[b]) / 2)) for a, b in edges]
    g["A"] = [int(round(a * U * U)) for a in dev.areas]
    g["OUT"] = [[q(p) for p in film.points[:-1]]] + [[q(p) for p in h.points[:-1]] for h in holes]
    g["PER"] = int(round(sum(r.length for r in rings) * U)) + 1
    # reference formulas on the device coordinates (length units); the code's areas are Device.areas
    redges, W, rarea, wc, ereg, _ = ref_cot(pts, tri)
    pos = {e: n for n, e in enumerate(redges)}
    em = m.edge_mesh
    dareas = np.asarray(dev.areas, dtype=float)
    sa = 10.0 ** math.floor(math.log10(1.0e9 / max(float(np.max(dareas)), float(np.max(np.abs(rarea))), 1e-30)))
    sa = min(sa, 1.0e9)
    ratio = em.dual_edge_lengths / em.edge_lengths
    sw = 10.0 ** math.floor(math.log10(1.0e9 / max(float(np.max(ratio)), float(np.max(np.abs(W))), 1e-30)))
    sw = min(sw, 1.0e9)
    g["tol"] = 5
    g["SITE"] = [{"wc": bool(wc[i]), "a": _q(dareas[i], sa), "c": _q(rarea[i], sa)} for i in range(nsites)]
    ctr = np.asarray(em.centers) * xi
    dirs = np.asarray(em.directions) * xi
    elen = np.asarray(dev.edge_lengths)
    g["EDGE"] = []
    for n, (a, b) in enumerate(edges):
        k = pos.get((min(int(a), int(b)), max(int(a), int(b))))
        g["EDGE"].append({"wc": bool(ereg[k]) if k is not None else True, "r": _q(ratio[n], sw),
                          "w": _q(W[k], sw) if k is not None else BOT,
                          "dx": int(round(dirs[n][0] * U)), "dy": int(round(dirs[n][1] * U)),
                          "cx2": int(round(2 * (ctr[n][0] - c0[0]) * U)), "cy2": int(round(2 * (ctr[n][1] - c0[1]) * U)),
                          "len": int(round(elen[n] * U))})
    g["TERM"] = []
    if terms:
        belen = elen[sorted(bset)]
        info = {ti.name: ti for ti in dev.terminal_info()}
        for t in terms:
            cover = film.polygon.exterior.intersection(t.polygon).length
            g["TERM"].append({"len": int(round(float(info[t.name].length) * U)), "cover": int(round(cover * U)),
                              "maxedge": int(round(float(belen.max()) * U))})
    g["stats"] = {"sites": nsites, "triangles": len(tri), "edges": len(edges), "well_centred_sites": int(wc.sum()),
                  "regular_edges": int(ereg.sum()), "U": U}
    return g


def strip_trace(t):
    if t["kind"] == "exact":
        return {"kind": "exact", "P": t["P"], "T": t["T"], "ob": {k: v for k, v in t["ob"].items() if k != "msg"}}
    keep = ("kind", "holes", "P", "T", "E", "ET", "B", "BS", "OS", "OE", "A", "OUT", "PER", "tol", "SITE", "EDGE", "TERM")
    return {k: t[k] for k in keep}


# ------------------------------------------------------------------ crash-proof execution of the real code


def run_batches(ctx, jobs, batch=12, nthreads=12, timeout=1500):
    """jobs: list of (func name, args).  Each batch runs in its own interpreter (`python -m harness.meshgeom`), so that
    a crash of the mesh generator (Triangle can kill the process) becomes an observation {"kind": "crashed"} instead
    of a hung pool.  Results come back in order."""
    import concurrent.futures as cf
    import os
    import subprocess
    import sys

    wdir = ctx.tmp / "batches"
    wdir.mkdir(exist_ok=True)
    results = [None] * len(jobs)
    env = dict(os.environ, NUMBA_NUM_THREADS="1", OMP_NUM_THREADS="1", MPLBACKEND="Agg")

    def one(k):
        todo = list(range(k, min(k + batch, len(jobs))))
        rnd = 0
        while todo:
            inf, outf = wdir / f"in_{k}_{rnd}.json", wdir / f"out_{k}_{rnd}.jsonl"
            inf.write_text(json.dumps([[n, jobs[n][0], jobs[n][1]] for n in todo]))
            try:
                p = subprocess.run([sys.executable, "-m", "harness.meshgeom", str(inf), str(outf)], cwd=str(core.VERIF), env=env,
                                   capture_output=True, text=True, timeout=timeout)
                rc, err = p.returncode, p.stderr[-1500:]
            except subprocess.TimeoutExpired:
                rc, err = 124, "timeout"
            done = set()
            started = None
            if outf.exists():
                for line in outf.read_text().splitlines():
                    rec = json.loads(line)
                    if "start" in rec:
                        started = rec["start"]
                    else:
                        results[rec["n"]] = rec["result"]
                        done.add(rec["n"])
            if rc == 0 and all(n in done for n in todo):
                return
            if started is None or started in done:
                raise core.MachineryFailure(f"C07 batch runner failed (rc={rc}) without a culprit: {err}")
            if rc > 0 and rc != 124:      # a Python exception in the harness, not a crash of the code under test
                raise core.MachineryFailure(f"C07 batch runner failed on job {jobs[started][0]} {json.dumps(jobs[started][1])[:300]}: {err}")
            results[started] = {"kind": "crashed", "rc": rc, "key": json.dumps(jobs[started][1], sort_keys=True)[:2000]}
            todo = [n for n in todo if n not in done and n != started]
            rnd += 1

    with cf.ThreadPoolExecutor(nthreads) as ex:
        list(ex.map(one, range(0, len(jobs), batch)))
    return results


def _runner_main(argv):
    import logging
    import os

    jobs = json.load(open(argv[1]))
    devnull = os.open(os.devnull, os.O_WRONLY)
    os.dup2(devnull, 2)  # tqdm progress bars
    tdgl = core.import_tdgl()
    logging.disable(logging.CRITICAL)
    with open(argv[2], "w") as out:
        for n, func, args in jobs:
            out.write(json.dumps({"start": n}) + "\n")
            out.flush()
            res = globals()[func](tdgl, args, None)
            out.write(json.dumps({"n": n, "result": res}) + "\n")
            out.flush()
    return 0


# ------------------------------------------------------------------ parallel batch validation


def validate_parallel(ctx, traces, what, nthreads=6, chunk=None):
    """Validate one-state traces with MeshGeomTrace in parallel TLC runs; returns the accepted indices."""
    import concurrent.futures as cf
    import re

    if not traces:
        return set()
    chunk = chunk or max(8, len(traces) // nthreads + 1)
    parts = [(k, traces[k:k + chunk]) for k in range(0, len(traces), chunk)]
    tdir = ctx.tmp / "traces"
    tdir.mkdir(exist_ok=True)
    cfg = trace_cfg()

    def one(part):
        k, ts = part
        tf = tdir / f"{what}_{k}.json"
        tf.write_text(json.dumps([strip_trace(t) for t in ts]))
        r = core.run_tlc("MeshGeomTrace", cfg, ctx.tmp / f"tlc_{what}_{k}", workers=1, env={"TRACE_FILE": str(tf)}, heap="2g",
                         java_opts=("-XX:TieredStopAtLevel=1", "-XX:ParallelGCThreads=2"))
        return k, len(ts), r

    accepted = set()
    with cf.ThreadPoolExecutor(nthreads) as ex:
        results = list(ex.map(one, parts))
    for k, n, r in results:
        ctx.cov["models"].append({"model": f"MeshGeomTrace[{what} {k}..{k + n - 1}] (trace validation)", "traces": n,
                                  "distinct_states": r.distinct, "states_generated": r.generated, "wall_s": round(r.wall, 2),
                                  "violated": r.violated})
        if r.errors or (not r.finished and not r.violated):
            raise core.MachineryFailure(f"MeshGeomTrace[{what}]: TLC failed on traces: {r.errors[:3]}\n{r.out[-3000:]}")
        ctx.cov["states"] += r.distinct
        ctx.cov["transitions"] += r.generated
        for line in r.printed():
            mm = re.match(r'<<"ACCEPT", (\d+)>>', line)
            if mm:
                accepted.add(k + int(mm.group(1)) - 1)
    return accepted


if __name__ == "__main__":
    import sys

    sys.exit(_runner_main(sys.argv))
