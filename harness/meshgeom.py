"""Binding of spec/MeshGeom.tla to the real mesh code (C07).

exact_traces : integer instances exported by TLC (MeshGeom!Emit) -> Mesh.from_triangulation -> what the code
               computed (edges, boundary flags, directions, centres, lengths, dual/edge ratios, areas), quantised,
               together with the same quantities from the reference numerics `ref_cot` below; TLC recomputes the
               exact rationals from (P, T) and compares (so the reference is itself validated by TLC's numbers).
gen_trace    : Device.make_mesh on documented primitives; the mesh is recorded as a one-state trace of quantised
               integers with incidence witnesses; MeshGeom!GenAll decides.  The per-site / per-edge cotangent
               values come from `ref_cot` (float64), the chain is TLA+ definition <-> ref_cot (exact instances)
               -> abstraction on generated meshes (DESIGN.md 4.3).
Python never judges: it concretises, records and abstracts.
"""
from __future__ import annotations

import json
import math

import numpy as np

from . import core

Q_EXACT = 10 ** 6
BOT = 10 ** 9 + 7


def model_cfg(b, invariants):
    return ("CONSTANTS\n BasisIds = {%s}\n Families = {%s}\n Offsets = {%s}\n" % (
        ", ".join(map(str, b["BasisIds"])), ", ".join('"%s"' % f for f in b["Families"]), ", ".join(map(str, b["Offsets"])))
        + "SPECIFICATION Spec\n" + "".join(f"INVARIANT {i}\n" for i in invariants) + "CHECK_DEADLOCK FALSE\n")


THEOREMS = ["InvOrientation", "InvIncidence", "InvEuler", "InvAreasTile", "InvWellCentred", "InvRingHasHole"]
CLAUSES_EXACT = ["C_ExactNoException", "C_ExactEdges", "C_ExactBoundary", "C_ExactEdgeVectors", "C_ExactDualLengths",
                 "C_ExactCellAreas", "C_ExactReference"]
CLAUSES_GEN = ["C_GenOrientation", "C_GenIncidence", "C_GenBoundaryFlags", "C_GenBoundaryIsOutline", "C_GenEuler",
               "C_GenTiling", "C_GenCellAreas", "C_GenDualLengths", "C_GenEdgeVectors", "C_GenTerminals",
               "C_GenAnalytic", "C_GenAnalyticEuler", "C_GenAnalyticCorners", "C_GenAnalyticBoundaryOnOutline",
               "C_GenAnalyticSitesInDomain", "C_GenAnalyticArea", "C_GenAnalyticTerminals"]


def trace_cfg(invariants=()):
    return ('CONSTANTS\n BasisIds = {}\n Families = {}\n Offsets = {}\nSPECIFICATION TSpec\nINVARIANT Accepted\n'
            + "".join(f"INVARIANT {i}\n" for i in invariants) + "CHECK_DEADLOCK FALSE\n")


def parse_instances(r):
    out = []
    for line in r.printed():
        if line.startswith('"{'):
            out.append(json.loads(json.loads(line)))
    return out


# ------------------------------------------------------------------ reference numerics (validated by TLC on exact instances)


def ref_cot(S, T):
    """Cotangent weights, circumcentric cell areas and regularity flags of a triangulation (0-based T).
    Returns edges (sorted pairs, lexicographic), W per edge, area per site, well-centred flag per site,
    regular flag per edge, incident triangles per edge."""
    S = np.asarray(S, dtype=float)
    T = np.asarray(T, dtype=int)
    inc = {}
    for t, tri in enumerate(T):
        for a in range(3):
            i, j, k = int(tri[a]), int(tri[(a + 1) % 3]), int(tri[(a + 2) % 3])
            u, v = S[i] - S[k], S[j] - S[k]
            cot = float(u @ v) / float(u[0] * v[1] - u[1] * v[0])
            inc.setdefault((min(i, j), max(i, j)), []).append((t, cot))
    edges = sorted(inc)
    W = np.array([sum(c for _, c in inc[e]) / 2 for e in edges])
    area = np.zeros(len(S))
    for n, (i, j) in enumerate(edges):
        c = float(((S[i] - S[j]) ** 2).sum()) * W[n] / 4
        area[i] += c
        area[j] += c
    eps = 1e-12
    ereg = np.array([(inc[e][0][1] >= -eps) if len(inc[e]) == 1 else (W[n] >= -eps) for n, e in enumerate(edges)])
    wc = np.ones(len(S), dtype=bool)
    eidx = {e: n for n, e in enumerate(edges)}
    for t, tri in enumerate(T):
        for a in range(3):
            i, j = int(tri[a]), int(tri[(a + 1) % 3])
            e = (min(i, j), max(i, j))
            cot = dict(inc[e])[t]
            if len(inc[e]) == 1:
                if cot < -eps:           # encroached boundary edge: spoils every site of this triangle
                    wc[list(map(int, tri))] = False
            elif W[eidx[e]] < -eps:      # not locally Delaunay: spoils the two end points
                wc[[i, j]] = False
    return edges, W, area, wc, ereg, [[t for t, _ in inc[e]] for e in edges]


def _exact_int(x):
    r = round(float(x))
    return int(r) if float(x) == r else BOT


def _q(x, Q):
    v = float(x) * Q
    if not math.isfinite(v) or abs(v) > 2 * 10 ** 9:
        return BOT
    return int(round(v))


# ------------------------------------------------------------------ exact binding


def exact_observation(tdgl, inst):
    from tdgl.finite_volume.mesh import Mesh

    exp = inst["exp"]
    P = np.array(exp["P"], dtype=float)
    T0 = np.array(exp["T"], dtype=int) - 1
    ob = {"exc": "none", "Q": Q_EXACT, "E": [], "B": [], "BS": [], "D": [], "C2": [], "L2": [], "R": [], "A": [],
          "refW": [], "refA": [], "refWC": [], "refER": []}
    try:
        m = Mesh.from_triangulation(P, T0)
    except Exception as ex:  # an exception class is an observation
        ob["exc"] = type(ex).__name__
        ob["msg"] = str(ex)[:100]
        return {"kind": "exact", "P": exp["P"], "T": exp["T"], "ob": ob, "key": inst_key(inst)}
    em = m.edge_mesh
    bset = set(int(x) for x in em.boundary_edge_indices)
    ob["E"] = [[int(a) + 1, int(b) + 1] for a, b in em.edges]
    ob["B"] = [n in bset for n in range(len(em.edges))]
    bs = set(int(x) for x in m.boundary_indices)
    ob["BS"] = [i in bs for i in range(len(P))]
    ob["D"] = [[_exact_int(d[0]), _exact_int(d[1])] for d in em.directions]
    ob["C2"] = [[_exact_int(2 * c[0]), _exact_int(2 * c[1])] for c in em.centers]
    ob["L2"] = [_q(x * x, Q_EXACT) for x in em.edge_lengths]
    ob["R"] = [_q(d / e, Q_EXACT) for d, e in zip(em.dual_edge_lengths, em.edge_lengths)]
    ob["A"] = [_q(a, Q_EXACT) for a in m.areas]
    edges, W, area, wc, ereg, _ = ref_cot(P, T0)
    pos = {e: n for n, e in enumerate(edges)}
    order = [pos[(min(a, b) - 1, max(a, b) - 1)] for a, b in ob["E"]] if all(
        (min(a, b) - 1, max(a, b) - 1) in pos for a, b in ob["E"]) else list(range(len(ob["E"])))
    ob["refW"] = [_q(W[n], Q_EXACT) for n in order]
    ob["refER"] = [bool(ereg[n]) for n in order]
    ob["refA"] = [_q(a, Q_EXACT) for a in area]
    ob["refWC"] = [bool(x) for x in wc]
    return {"kind": "exact", "P": exp["P"], "T": exp["T"], "ob": ob, "key": inst_key(inst)}


def inst_key(inst):
    return f"{inst['name']} basis={inst['b']} offset={inst['o']} {inst['m']}x{inst['n']} sites={len(inst['exp']['P'])} tris={len(inst['exp']['T'])}"


def exact_traces(tdgl, args, tmp):
    out = []
    for inst in args["instances"]:
        t = exact_observation(tdgl, inst)
        # python-side diff against the exported expectation (diagnostics only)
        exp, ob = inst["exp"], t["ob"]
        t["pydiff"] = None
        if ob["exc"] == "none":
            want = {(e["i"], e["j"]): e for e in exp["E"]}
            for n, (a, b) in enumerate(ob["E"]):
                e = want.get((min(a, b), max(a, b)))
                if e is None:
                    t["pydiff"] = f"edge {(a, b)} is not an edge of the model"
                    break
                w = e["w"][0] / e["w"][1]
                if abs(ob["R"][n] / Q_EXACT - w) > 3e-6 or ob["B"][n] != e["b"]:
                    t["pydiff"] = f"edge {(a, b)}: dual/edge {ob['R'][n] / Q_EXACT} boundary {ob['B'][n]}, model {w} ({e['w']}) boundary {e['b']}"
                    break
            if t["pydiff"] is None:
                for i, a in enumerate(exp["A"]):
                    if abs(ob["A"][i] / Q_EXACT - a[0] / a[1]) > 3e-6:
                        t["pydiff"] = f"site {i + 1}: area {ob['A'][i] / Q_EXACT}, model {a[0] / a[1]} ({a})"
                        break
        out.append(t)
    return out


# ------------------------------------------------------------------ generated meshes


EXPLICIT = ("cshape", "verts")      # outlines whose vertices the harness computes itself (no tdgl primitive involved)


def explicit_points(spec):
    """The vertices of an outline THE HARNESS specifies point by point (they are what the user hands to tdgl.Polygon):
      cshape : an annular sector (C shape): outer arc r_out (cos t, sin t), t = -half .. half in n points, then the inner arc
               r_in (cos t, sin t) backwards; non-convex; its centroid lies in the opening when `half` is large
      verts  : an explicit vertex list (L, U, T, plus ... shapes)
    both turned counter-clockwise by `angle` degrees about their local origin and then translated by `center`."""
    if spec["kind"] == "cshape":
        t = np.linspace(-float(spec["half"]), float(spec["half"]), int(spec["n"]))
        v = np.vstack([float(spec["r_out"]) * np.c_[np.cos(t), np.sin(t)], float(spec["r_in"]) * np.c_[np.cos(t[::-1]), np.sin(t[::-1])]])
    elif spec["kind"] == "verts":
        v = np.array(spec["verts"], dtype=float)
    else:
        raise ValueError(spec["kind"])
    th = math.radians(spec.get("angle", 0))
    R = np.array([[math.cos(th), -math.sin(th)], [math.sin(th), math.cos(th)]])
    return v @ R.T + np.array(spec.get("center", (0, 0)), dtype=float)


def shoelace(v):
    """signed area and centroid of a closed outline (vertex array, not repeated), by the shoelace formulas"""
    x, y = np.asarray(v, dtype=float).T
    x1, y1 = np.roll(x, -1), np.roll(y, -1)
    cr = x * y1 - x1 * y
    a = cr.sum() / 2
    return a, np.array([((x + x1) * cr).sum(), ((y + y1) * cr).sum()]) / (6 * a)


def signed_distance(v, xy):
    """distance of the point xy to the outline v (closed polygon), negative inside (even-odd crossing number)"""
    v = np.asarray(v, dtype=float)
    p = np.asarray(xy, dtype=float)
    a, b = v, np.roll(v, -1, axis=0)
    ab = b - a
    t = np.clip(((p - a) * ab).sum(axis=1) / np.maximum((ab * ab).sum(axis=1), 1e-300), 0, 1)
    d = float(np.sqrt((((a + t[:, None] * ab) - p) ** 2).sum(axis=1)).min())
    cond = (a[:, 1] > p[1]) != (b[:, 1] > p[1])
    with np.errstate(divide="ignore", invalid="ignore"):
        xint = a[:, 0] + (p[1] - a[:, 1]) * ab[:, 0] / ab[:, 1]
    inside = bool(np.count_nonzero(cond & (p[0] < xint)) % 2)
    return -d if inside else d


def centroid_outside(spec):
    """does the centroid of an explicit outline lie outside the outline itself (only a non-convex outline can do that)"""
    v = explicit_points(spec)
    return bool(signed_distance(v, shoelace(v)[1]) > 0)


def _poly(tdgl, spec, name):
    """A Polygon from a small description (documented primitives, or an explicit vertex list made by the harness)."""
    from tdgl.geometry import box, circle, ellipse

    k = spec["kind"]
    c = tuple(spec.get("center", (0, 0)))
    if k in EXPLICIT:
        pts = explicit_points(spec)
    elif k == "box":
        pts = box(spec["w"], spec["h"], points=spec.get("points", 40), center=c, angle=spec.get("angle", 0))
    elif k == "circle":
        pts = circle(spec["r"], points=spec.get("points", 24), center=c)
    elif k == "ellipse":
        pts = ellipse(spec["a"], spec["b"], points=spec.get("points", 32), center=c, angle=spec.get("angle", 0))
    else:
        raise ValueError(k)
    if spec.get("reverse"):
        pts = pts[::-1]
    flag = spec.get("mesh_flag")     # the documented per-polygon option `mesh`, and how the polygon came to carry it
    if flag == "ctor":               # Polygon(..., mesh=False)
        p = tdgl.Polygon(name, points=pts, mesh=False)
    elif flag in ("terminal-translate", "terminal-copy", "terminal-scale"):
        # history: the outline was once a terminal of another Device (which sets mesh=False on it in place);
        # the polygon used here is derived from it
        shift = (7.0, -3.0)
        lead = tdgl.Polygon("lead", points=pts + np.array([shift]) if flag == "terminal-translate" else pts)
        other_film = tdgl.Polygon("f", points=box(4, 4, points=16, center=tuple(np.asarray(lead.points).mean(axis=0))))
        tdgl.Device("other", layer=tdgl.Layer(coherence_length=1.0, london_lambda=2.0, thickness=0.1), film=other_film, terminals=[lead])
        if flag == "terminal-translate":
            p = lead.translate(dx=-shift[0], dy=-shift[1])
        elif flag == "terminal-copy":
            p = lead.copy()
        else:
            p = lead.scale(xfact=1.0, yfact=1.0)
    else:
        p = tdgl.Polygon(name, points=pts)
    for u in spec.get("union", []):
        p = p.union(_poly(tdgl, u, name))
    for u in spec.get("minus", []):
        p = p.difference(_poly(tdgl, u, name))
    if spec.get("resample"):
        p = p.resample(spec["resample"])
    p.name = name
    return p


class Analytic:
    """A plain primitive as the USER specified it, from first principles (no tdgl code): a w x h rectangle or an a, b
    ellipse (n vertices) translated to `center` and then turned counter-clockwise by `angle` about (0, 0); or an outline
    given vertex by vertex (kind "poly": C-shaped annular sectors, L / U / plus shapes - possibly NON-CONVEX), whose
    reference is that very vertex list (shoelace area, crossing-number membership, distance to its segments)."""

    def __init__(self, spec):
        if spec["kind"] in EXPLICIT:      # the outline is the vertex list the harness made itself
            self.kind = "poly"
            self.V = explicit_points(spec)
            return
        self.kind = "ellipse" if spec["kind"] in ("ellipse", "circle") else "box"
        self.c = np.array(spec.get("center", (0, 0)), dtype=float)
        th = math.radians(spec.get("angle", 0) if spec["kind"] != "circle" else 0)
        self.R = np.array([[math.cos(th), -math.sin(th)], [math.sin(th), math.cos(th)]])
        if self.kind == "box":
            self.w, self.h = float(abs(spec["w"])), float(abs(spec["h"]))
        else:
            self.a = float(spec["r"] if spec["kind"] == "circle" else spec["a"])
            self.b = float(spec["r"] if spec["kind"] == "circle" else spec["b"])
            self.n = int(spec.get("points", 24 if spec["kind"] == "circle" else 32))

    @staticmethod
    def plain(spec):
        return spec["kind"] in ("box", "ellipse", "circle") + EXPLICIT and not any(spec.get(k) for k in ("union", "minus", "resample"))

    def local(self, xy):        # undo the tilt, then the centring
        return np.asarray(xy, dtype=float) @ self.R - self.c

    def vertices(self):
        if self.kind == "poly":
            return self.V
        if self.kind == "box":
            v = np.array([(-self.w / 2, -self.h / 2), (self.w / 2, -self.h / 2), (self.w / 2, self.h / 2), (-self.w / 2, self.h / 2)])
        else:
            t = 2 * math.pi * np.arange(self.n) / self.n
            v = np.array([self.a * np.cos(t), self.b * np.sin(t)]).T
        return (v + self.c) @ self.R.T

    def area(self):
        if self.kind == "poly":
            return abs(shoelace(self.V)[0])
        return self.w * self.h if self.kind == "box" else 0.5 * self.n * self.a * self.b * math.sin(2 * math.pi / self.n)

    def residual(self, xy, U):
        """rectangle, vertex list: signed distance to the outline in quanta; ellipse: (x/a)^2 + (y/b)^2 - 1 in units of 1e-6"""
        if self.kind == "poly":
            return max(-10 ** 9, min(10 ** 9, int(round(signed_distance(self.V, xy) * U))))
        x, y = self.local(xy)
        if self.kind == "box":
            dx, dy = abs(x) - self.w / 2, abs(y) - self.h / 2
            d = max(dx, dy) if max(dx, dy) <= 0 else math.hypot(max(dx, 0), max(dy, 0))
            return max(-10 ** 9, min(10 ** 9, int(round(d * U))))
        return max(-10 ** 9, min(10 ** 9, int(round(((x / self.a) ** 2 + (y / self.b) ** 2 - 1) * 10 ** 6))))

    def band(self):
        if self.kind in ("box", "poly"):
            return -2, 2
        return int(math.floor((math.cos(math.pi / self.n) ** 2 - 1) * 10 ** 6)) - 50, 50


def analytic_record(args, pts, bs, U, q, terms_n):
    """g.ANA: the generated mesh against the domain computed from the numbers given to the primitives."""
    from shapely.geometry import LinearRing
    from shapely.geometry import Polygon as SPolygon

    specs = [args["film"]] + list(args.get("holes", []))
    if not all(Analytic.plain(s) for s in specs):
        return {"have": False, "corners": [], "bres": [], "lo": [], "hi": [], "ain": [], "area2": 0, "tcover": [], "nholes": 0}
    shapes = [Analytic(s) for s in specs]
    # vertices the user gave explicitly (the 4 corners of a box; every vertex of an explicit outline) must be boundary sites
    corners = [q(v) for s in shapes if s.kind in ("box", "poly") for v in s.vertices()]
    bands = [s.band() for s in shapes]
    bres = [{"i": i + 1, "res": [s.residual(pts[i], U) for s in shapes]} for i in range(len(pts)) if bs[i]]
    ain = []
    for p in pts:
        r = [s.residual(p, U) for s in shapes]
        ain.append(bool(r[0] <= bands[0][1] and all(r[k] >= bands[k][0] for k in range(1, len(shapes)))))
    area = shapes[0].area() - sum(s.area() for s in shapes[1:])
    tcover = []
    tspecs = list(args.get("terminals", []))
    if tspecs and all(Analytic.plain(t) for t in tspecs):
        ring = LinearRing(shapes[0].vertices())
        tcover = [int(round(ring.intersection(SPolygon(Analytic(t).vertices())).length * U)) for t in tspecs]
    return {"have": True, "corners": corners, "bres": bres, "lo": [b[0] for b in bands], "hi": [b[1] for b in bands], "ain": ain,
            "area2": int(round(2 * area * U * U)), "tcover": tcover, "nholes": len(specs) - 1}


def gen_trace(tdgl, args, tmp):
    """Build the device, generate the mesh, record the one-state trace."""
    xi = float(args.get("xi", 1.0))
    layer = tdgl.Layer(coherence_length=xi, london_lambda=2.0 * xi, thickness=0.1)
    film = _poly(tdgl, args["film"], "film")
    holes = [_poly(tdgl, h, f"hole{k}") for k, h in enumerate(args.get("holes", []))]
    terms = [_poly(tdgl, t, f"term{k}") for k, t in enumerate(args.get("terminals", []))]
    key = json.dumps(args, sort_keys=True)
    # the description must be a well-formed device: holes strictly inside the film and apart from each other
    # (Triangle crashes the process on holes that touch the outline; such inputs are not documented geometries)
    for k, h in enumerate(holes):
        if not film.polygon.contains(h.polygon) or film.polygon.exterior.distance(h.polygon) < 0.05 \
                or any(h.polygon.distance(o.polygon) < 0.05 for o in holes[:k]):
            return {"kind": "invalid", "key": key}
    dev = tdgl.Device("dev", layer=layer, film=film, holes=holes, terminals=terms, length_units=args.get("units", "um"))
    via = args.get("via", "device")     # which documented route produces the mesh
    try:
        if via == "polygon.make_mesh":      # Polygon.make_mesh(smooth=n): the mesh of the film polygon alone, in length units
            if holes or xi != 1.0:
                raise core.MachineryFailure("polygon.make_mesh route needs a film without holes and xi = 1")
            dev.mesh = film.make_mesh(**args.get("mesh", {}))
        else:
            dev.make_mesh(**args.get("mesh", {}))
            if via == "mesh.smooth":        # Mesh.smooth(n) on the device's mesh (default create_submesh=True)
                dev.mesh = dev.mesh.smooth(int(args["smooth_again"]))
    except core.MachineryFailure:
        raise
    except Exception as ex:
        return {"kind": "refused", "exc": type(ex).__name__, "msg": str(ex)[:160], "key": key}
    return observe_device(dev, key, full=True, spec=args)


def observe_device(dev, key, full=True, spec=None):
    """The quantised one-state record of a meshed device against ITS OWN film, holes and terminals.
    full=False leaves out the per-site / per-edge comparison with the reference formulas."""
    from shapely.geometry import LinearRing, Point
    from shapely.geometry import Polygon as SPolygon

    film, holes, terms = dev.film, list(dev.holes), list(dev.terminals)
    xi = float(dev.coherence_length.magnitude)
    m = dev.mesh
    pts = np.asarray(dev.points, dtype=float)           # length units
    tri = np.asarray(dev.triangles, dtype=int)
    edges = np.asarray(dev.edges, dtype=int)
    nsites = len(pts)
    allp = np.vstack([pts, np.asarray(film.points)])     # the mesh AND the device's own outline (they may be apart)
    lo, hi = allp.min(axis=0), allp.max(axis=0)
    c0 = (lo + hi) / 2
    U = 1000.0                                            # quanta per length unit
    span = float((hi - lo).max())
    if span * U > 2.0e4:                                  # keep cross products below 2^31
        U = 10.0 ** math.floor(math.log10(2.0e4 / span))
    q = lambda xy: [int(round((xy[0] - c0[0]) * U)), int(round((xy[1] - c0[1]) * U))]
    g = {"kind": "gen", "key": key, "holes": len(holes), "U": U, "nsites": nsites,
         "hole_mesh_flags": [bool(h.mesh) for h in holes]}
    g["P"] = [q(p) for p in pts]
    g["T"] = [[int(a) + 1 for a in t] for t in tri]
    g["E"] = [[int(a) + 1, int(b) + 1] for a, b in edges]
    # incidence witness
    inc = {}
    for t, (a, b, c) in enumerate(tri):
        for i, j in ((a, b), (b, c), (c, a)):
            inc.setdefault((min(i, j), max(i, j)), []).append(t + 1)
    g["ET"] = [inc.get((min(a, b), max(a, b)), []) for a, b in edges]
    bset = set(int(x) for x in m.edge_mesh.boundary_edge_indices)
    g["B"] = [n in bset for n in range(len(edges))]
    bs = set(int(x) for x in m.boundary_indices)
    g["BS"] = [i in bs for i in range(nsites)]
    # outline membership (independent of tdgl: shapely distance to the outline rings)
    rings = [LinearRing(film.points)] + [LinearRing(h.points) for h in holes]
    tol = 1e-9 * max(1.0, span)
    on = lambda xy: any(r.distance(Point(xy)) <= tol for r in rings)
    g["OS"] = [bool(on(p)) for p in pts]
    g["OE"] = [bool(on((pts[a] + pts[b]) / 2)) for a, b in edges]
    g["A"] = [int(round(a * U * U)) for a in dev.areas]
    domain = SPolygon(film.points, [h.points for h in holes])
    g["TIN"] = [bool(domain.contains(Point(*pts[list(t)].mean(axis=0)))) for t in tri]
    g["OUT"] = [[q(p) for p in film.points[:-1]]] + [[q(p) for p in h.points[:-1]] for h in holes]
    g["PER"] = int(round(sum(r.length for r in rings) * U)) + 1
    g["TERM"] = []
    elen = np.asarray(dev.edge_lengths)
    if terms:
        belen = elen[sorted(bset)]
        info = {ti.name: ti for ti in dev.terminal_info()}
        for t in terms:
            cover = film.polygon.exterior.intersection(t.polygon).length
            g["TERM"].append({"len": int(round(float(info[t.name].length) * U)), "cover": int(round(cover * U)),
                              "maxedge": int(round(float(belen.max()) * U))})
    g["stats"] = {"sites": nsites, "triangles": len(tri), "edges": len(edges), "U": U}
    if not full:
        return g
    g["ANA"] = (analytic_record(spec, pts, g["BS"], U, q, len(terms)) if spec is not None
                else {"have": False, "corners": [], "bres": [], "lo": [], "hi": [], "ain": [], "area2": 0, "tcover": [], "nholes": 0})
    # reference formulas on the device coordinates (length units); the code's areas are Device.areas
    redges, W, rarea, wc, ereg, _ = ref_cot(pts, tri)
    pos = {e: n for n, e in enumerate(redges)}
    em = m.edge_mesh
    dareas = np.asarray(dev.areas, dtype=float)
    sa = 10.0 ** math.floor(math.log10(1.0e9 / max(float(np.max(dareas)), float(np.max(np.abs(rarea))), 1e-30)))
    sa = min(sa, 1.0e9)
    ratio = em.dual_edge_lengths / em.edge_lengths
    sw = 10.0 ** math.floor(math.log10(1.0e9 / max(float(np.max(ratio)), float(np.max(np.abs(W))), 1e-30)))
    sw = min(sw, 1.0e9)
    g["tol"] = 5
    g["SITE"] = [{"wc": bool(wc[i]), "a": _q(dareas[i], sa), "c": _q(rarea[i], sa)} for i in range(nsites)]
    ctr = np.asarray(em.centers) * xi
    dirs = np.asarray(em.directions) * xi
    g["EDGE"] = []
    for n, (a, b) in enumerate(edges):
        k = pos.get((min(int(a), int(b)), max(int(a), int(b))))
        g["EDGE"].append({"wc": bool(ereg[k]) if k is not None else True, "r": _q(ratio[n], sw),
                          "w": _q(W[k], sw) if k is not None else BOT,
                          "dx": int(round(dirs[n][0] * U)), "dy": int(round(dirs[n][1] * U)),
                          "cx2": int(round(2 * (ctr[n][0] - c0[0]) * U)), "cy2": int(round(2 * (ctr[n][1] - c0[1]) * U)),
                          "len": int(round(elen[n] * U))})
    g["stats"] = {"sites": nsites, "triangles": len(tri), "edges": len(edges), "well_centred_sites": int(wc.sum()),
                  "regular_edges": int(ereg.sum()), "U": U}
    return g


def strip_trace(t):
    if t["kind"] == "exact":
        return {"kind": "exact", "P": t["P"], "T": t["T"], "ob": {k: v for k, v in t["ob"].items() if k != "msg"}}
    if t["kind"] == "hist":
        return {"kind": "hist", "ev": [{"op": e["op"], "d": e["d"], "res": e["res"], "has": e["has"],
                                        "gs": [strip_placed(g) for g in e["gs"]]} for e in t["ev"]]}
    keep = ("kind", "holes", "P", "T", "E", "ET", "B", "BS", "OS", "OE", "A", "OUT", "PER", "tol", "SITE", "EDGE", "TERM", "TIN", "ANA")
    return {k: t[k] for k in keep}


def strip_placed(g):
    return {k: g[k] for k in ("dev", "holes", "P", "T", "E", "B", "BS", "OS", "OE", "OUT", "PER", "TERM", "TIN")}


# ------------------------------------------------------------------ histories of Device operations (spec/DevHeap.tla)

HOPS = ["copy", "deepcopy", "shallowcopy", "translatein", "translateout", "rotate", "scale", "enter", "exit", "makemesh"]
HACTION = {"copy": "ACopy", "deepcopy": "ADeepCopy", "shallowcopy": "AShallowCopy", "translatein": "ATranslateIn",
           "translateout": "ATranslateOut", "rotate": "ARotate", "scale": "AScale", "enter": "AEnter", "exit": "AExit",
           "makemesh": "AMakeMesh"}
HCLAUSES = ["MeshMatchesOwnOutline", "ResultShape"]
HDIAG = ["D_Orientation", "D_BoundaryIsOutline", "D_TrianglesTileOwnFilm", "D_Euler", "D_Terminals"]


def heap_cfg(b, invariants, export=False, rebuild=True, view=True):
    return ("CONSTANTS\n MaxDevs = %d\n MaxOps = %d\n HOps = {%s}\n ShiftX = 5\n ShiftY = 3\n MRebuild = %s\n HExport = %s\n" % (
        b["MaxDevs"], b["MaxOps"], ", ".join('"%s"' % o for o in b["HOps"]), "TRUE" if rebuild else "FALSE",
        "TRUE" if export else "FALSE") + "SPECIFICATION HSpec\n" + "".join(f"INVARIANT {i}\n" for i in invariants)
        + "CHECK_DEADLOCK FALSE\n" + ("VIEW hview\n" if view else ""))


def heap_trace_cfg(invariants=()):
    return ('CONSTANTS\n MaxDevs = 99\n MaxOps = 99\n HOps = {}\n ShiftX = 5\n ShiftY = 3\n MRebuild = TRUE\n HExport = FALSE\n'
            ' BasisIds = {}\n Families = {}\n Offsets = {}\nSPECIFICATION TSpec\nINVARIANT Accepted\n'
            + "".join(f"INVARIANT {i}\n" for i in invariants) + "CHECK_DEADLOCK FALSE\n")


def parse_histories(r):
    """DevHeap!HEmit prints every chain (prefix-closed).  Returns all of them, de-duplicated."""
    out, seen = [], set()
    for line in r.printed():
        if line.startswith('"['):
            c = json.loads(json.loads(line))
            k = json.dumps([[o["op"], o["d"]] for o in c])
            if k not in seen:
                seen.add(k)
                out.append(c)
    return out


def hist_key(chain, dev):
    return dev + ": " + " ; ".join(f"{o['op']}({o['d']})" for o in chain)


HIST_DEVICES = {
    "barhole": dict(film=dict(kind="box", w=4, h=2, points=24), holes=[dict(kind="circle", r=0.4, points=10, center=(0.3, 0.1))],
                    terminals=[dict(kind="box", w=0.2, h=2, center=(-2, 0)), dict(kind="box", w=0.2, h=1.2, center=(2, 0.2))],
                    mesh=dict(max_edge_length=0.9), xi=1.0),
    "ellipse": dict(film=dict(kind="ellipse", a=2, b=1.2, points=26, center=(0.5, -0.25)), holes=[], terminals=[],
                    mesh=dict(max_edge_length=0.8), xi=0.5),
}


def hist_trace(tdgl, args, tmp):
    """Execute one exported chain of Device operations on real meshed devices; after every operation record, for
    every live device, mesh / no mesh and the mesh against the device's OWN film, holes and terminals."""
    import copy as pycopy

    spec = HIST_DEVICES[args["device"]]
    xi = float(spec["xi"])
    layer = tdgl.Layer(coherence_length=xi, london_lambda=2.0 * xi, thickness=0.1)
    film = _poly(tdgl, spec["film"], "film")
    holes = [_poly(tdgl, h, f"hole{k}") for k, h in enumerate(spec["holes"])]
    terms = [_poly(tdgl, t, f"term{k}") for k, t in enumerate(spec["terminals"])]
    key = hist_key(args["chain"], args["device"])
    try:
        d0 = tdgl.Device("dev", layer=layer, film=film, holes=holes, terminals=terms)
        d0.make_mesh(**spec["mesh"])
    except Exception as ex:     # the fixed, plain device of the histories cannot even be built / meshed: an observation
        return {"kind": "histfail", "key": key, "exc": type(ex).__name__, "msg": str(ex)[:200]}
    devs = [d0]
    dx, dy = args.get("shift", (1.25, -0.75))
    key = hist_key(args["chain"], args["device"])
    ctxs = []

    def snapshot(op, d, res):
        gs = []
        for k, dv in enumerate(devs):
            if dv.mesh is not None:
                g = observe_device(dv, key, full=False)
                g["dev"] = k + 1
                gs.append(g)
        return {"op": op, "d": d, "res": res, "has": [dv.mesh is not None for dv in devs], "gs": gs}

    def ident(r):
        for k, dv in enumerate(devs):
            if dv is r:
                return k + 1
        devs.append(r)
        return len(devs)

    ev = [snapshot("new", 0, 1)]
    refused = None
    try:
        for o in args["chain"]:
            op, D = o["op"], devs[o["d"] - 1] if o["d"] else None
            if op == "copy":
                r = D.copy()
            elif op == "deepcopy":
                r = pycopy.deepcopy(D)
            elif op == "shallowcopy":
                r = pycopy.copy(D)
            elif op == "translatein":
                r = D.translate(dx, dy, inplace=True)
            elif op == "translateout":
                r = D.translate(dx, dy)
            elif op == "rotate":
                r = D.rotate(90)
            elif op == "scale":
                r = D.scale(xfact=-1, yfact=1)
            elif op == "makemesh":
                try:
                    D.make_mesh(**spec["mesh"])
                except (ValueError, AssertionError) as ex:      # the code refuses this mesh (DESIGN.md D15): the history ends here
                    refused = f"{type(ex).__name__}: {str(ex)[:80]}"
                    break
                r = D
            elif op == "enter":
                cm = D.translation(dx, dy)
                cm.__enter__()
                ctxs.append((cm, D))
                r = D
            elif op == "exit":
                cm, r = ctxs.pop()
                cm.__exit__(None, None, None)
            else:
                raise ValueError(op)
            ev.append(snapshot(op, o["d"], ident(r)))
    finally:
        while ctxs:                       # leave every open translation() context (not part of the recorded history)
            ctxs.pop()[0].__exit__(None, None, None)
    return {"kind": "hist", "key": key, "ev": ev, "chain": args["chain"], "device": args["device"],
            "sites": ev[0]["gs"][0]["stats"]["sites"], "truncated_by_refusal": refused}


# ------------------------------------------------------------------ crash-proof execution of the real code


def run_batches(ctx, jobs, batch=12, nthreads=12, timeout=1500):
    """jobs: list of (func name, args).  Each batch runs in its own interpreter (`python -m harness.meshgeom`), so that
    a crash of the mesh generator (Triangle can kill the process) becomes an observation {"kind": "crashed"} instead
    of a hung pool.  Results come back in order."""
    import concurrent.futures as cf
    import os
    import subprocess
    import sys

    wdir = ctx.tmp / "batches"
    wdir.mkdir(exist_ok=True)
    results = [None] * len(jobs)
    env = dict(os.environ, NUMBA_NUM_THREADS="1", OMP_NUM_THREADS="1", MPLBACKEND="Agg")

    def one(k):
        todo = list(range(k, min(k + batch, len(jobs))))
        rnd = 0
        while todo:
            inf, outf = wdir / f"in_{k}_{rnd}.json", wdir / f"out_{k}_{rnd}.jsonl"
            inf.write_text(json.dumps([[n, jobs[n][0], jobs[n][1]] for n in todo]))
            try:
                p = subprocess.run([sys.executable, "-m", "harness.meshgeom", str(inf), str(outf)], cwd=str(core.VERIF), env=env,
                                   capture_output=True, text=True, timeout=timeout)
                rc, err = p.returncode, p.stderr[-1500:]
            except subprocess.TimeoutExpired:
                rc, err = 124, "timeout"
            done = set()
            started = None
            if outf.exists():
                for line in outf.read_text().splitlines():
                    rec = json.loads(line)
                    if "start" in rec:
                        started = rec["start"]
                    else:
                        results[rec["n"]] = rec["result"]
                        done.add(rec["n"])
            if rc == 0 and all(n in done for n in todo):
                return
            if started is None or started in done:
                raise core.MachineryFailure(f"C07 batch runner failed (rc={rc}) without a culprit: {err}")
            if rc > 0 and rc != 124:      # a Python exception in the harness, not a crash of the code under test
                raise core.MachineryFailure(f"C07 batch runner failed on job {jobs[started][0]} {json.dumps(jobs[started][1])[:300]}: {err}")
            results[started] = {"kind": "crashed", "rc": rc, "key": json.dumps(jobs[started][1], sort_keys=True)[:2000]}
            todo = [n for n in todo if n not in done and n != started]
            rnd += 1

    with cf.ThreadPoolExecutor(nthreads) as ex:
        list(ex.map(one, range(0, len(jobs), batch)))
    return results


def _runner_main(argv):
    import logging
    import os

    jobs = json.load(open(argv[1]))
    devnull = os.open(os.devnull, os.O_WRONLY)
    os.dup2(devnull, 2)  # tqdm progress bars
    tdgl = core.import_tdgl()
    logging.disable(logging.CRITICAL)
    with open(argv[2], "w") as out:
        for n, func, args in jobs:
            out.write(json.dumps({"start": n}) + "\n")
            out.flush()
            res = globals()[func](tdgl, args, None)
            out.write(json.dumps({"n": n, "result": res}) + "\n")
            out.flush()
    return 0


# ------------------------------------------------------------------ parallel batch validation


def validate_parallel(ctx, traces, what, nthreads=6, chunk=None, module="MeshGeomTrace", cfg=None):
    """Validate traces with a trace module in parallel TLC runs; returns the accepted indices."""
    import concurrent.futures as cf
    import re

    if not traces:
        return set()
    chunk = chunk or max(8, len(traces) // nthreads + 1)
    parts = [(k, traces[k:k + chunk]) for k in range(0, len(traces), chunk)]
    tdir = ctx.tmp / "traces"
    tdir.mkdir(exist_ok=True)
    cfg = cfg or trace_cfg()

    def one(part):
        k, ts = part
        tf = tdir / f"{what}_{k}.json"
        tf.write_text(json.dumps([strip_trace(t) for t in ts]))
        r = core.run_tlc(module, cfg, ctx.tmp / f"tlc_{what}_{k}", workers=1, env={"TRACE_FILE": str(tf)}, heap="2g",
                         java_opts=("-XX:TieredStopAtLevel=1", "-XX:ParallelGCThreads=2"))
        return k, len(ts), r

    accepted = set()
    with cf.ThreadPoolExecutor(nthreads) as ex:
        results = list(ex.map(one, parts))
    for k, n, r in results:
        ctx.cov["models"].append({"model": f"{module}[{what} {k}..{k + n - 1}] (trace validation)", "traces": n,
                                  "distinct_states": r.distinct, "states_generated": r.generated, "wall_s": round(r.wall, 2),
                                  "violated": r.violated})
        if r.errors or (not r.finished and not r.violated):
            raise core.MachineryFailure(f"{module}[{what}]: TLC failed on traces: {r.errors[:3]}\n{r.out[-3000:]}")
        ctx.cov["states"] += r.distinct
        ctx.cov["transitions"] += r.generated
        for line in r.printed():
            mm = re.match(r'<<"ACCEPT", (\d+)>>', line)
            if mm:
                accepted.add(k + int(mm.group(1)) - 1)
    return accepted


if __name__ == "__main__":
    import sys

    sys.exit(_runner_main(sys.argv))
