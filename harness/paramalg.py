"""Binding of spec/ParamAlg.tla to the real tdgl.Parameter / CompositeParameter classes (C16, C14).

spec -> code: TLC enumerates the expression trees (ParamAlg.Emit prints one JSON line per tree with the
values the property expects); every tree is built here with the REAL classes through the Python operators
(a number on the left goes through the reflected operator) and exercised.
code -> spec: what the objects did is recorded as a trace of object-level events (build, eq, call, clear,
pickle, unpickle, solve) with the observed values abstracted to exact dyadics in units of 1/Q (or the class
of the exception raised) and validated by TLC against spec/ParamAlgTrace.tla.

Python only concretises, records and abstracts; it compares nothing."""
from __future__ import annotations

import concurrent.futures as cf
import copy as _copy
import json
import operator
import pickle
import re
import warnings

import numpy as np

from . import core

Q = 64
LIM = 32768
NOTEXACT = 888888
BASE = [(1.0, 0.0, 1.0), (1.5, 0.5, 0.0), (0.0, 1.0, -1.0)]        # ParamAlg.Pts[1..3] / Q
# ParamAlg.Pts / Q: the base points; the same with only y changed; with only z changed; integer points
POINTS = BASE + [(1.0, 1.0, 1.0), (1.5, 1.5, 0.0), (0.0, 2.0, -1.0)] + [(1.0, 0.0, 1.5), (1.5, 0.5, 0.5), (0.0, 1.0, -0.5)] \
    + [(1, 0, 1), (2, 1, 0), (0, 1, -1)]
KCVAL = 0.5 + 1.0j          # tdgl.Constant(KCVAL): expressions linear in it are read in units of it
_UNIT = [None]
TIMES = [0, 64, 192, -64, -128, -32]                                 # ParamAlg.TimeSeq (units of 1/Q): t = 0, 1, 3, -1, -2, -0.5
ARGS = ["s1", "s2", "s3", "arr"]
OPS = {"add": operator.add, "sub": operator.sub, "mul": operator.mul, "div": operator.truediv, "pow": operator.pow}
OPSYM = {"add": "+", "sub": "-", "mul": "*", "div": "/", "pow": "**"}

# mechanism the specification prescribes (repaired) and the mechanism of the pinned classes (design canary)
MECH = dict(MInitUseCache=True, MClearByOperand=True, MPickleSlots=True, MEqFlat=False, MReuseEqual=False, MRampClamp=False, MCacheKeyXOnly=False, MConstDtype=False, MCacheKeyBuffer=False, MCacheKeyTime=True,
            MCacheKeyHashT=False, MCacheKeyHashK=False)
PINNED = dict(MECH, MInitUseCache=False, MClearByOperand=False, MPickleSlots=False, MCacheKeyHashT=True, MCacheKeyHashK=True)
INVARIANTS = ["TypeOK", "EvalIsPointwise", "TimeDepIffSomeOperand", "EqIsStructural", "NestingTotal",
              "ClearCacheTotal", "PickleRoundTrip", "SolverAcceptsComposite"]


# ---------------------------------------------------------------- leaves (ParamAlg.LeafVal)


def p2(x, y, a=0):
    return x + 2 * y - a


def p3(x, y, z, b=0):
    return x - y + z + b


def pt(x, y, z, *, t, c=0):
    return x + y + 2 * z - c + t


# twins (ParamAlg: P2b, P3b, PTb): leaves that the library's == cannot tell apart but that compute other values -
# same function code and keyword names; the difference lives in an array keyword below the comparison tolerance
# (2-D leaf) or in a closure cell (3-D and time-dependent leaf, the usual "factory of sources" style)
def p2r(x, y, a=0, r0=(0.0, 0.0)):
    return x + 2 * y - a + 2 * (np.sign(r0[0]) - 1)


def make_p3(off):
    def p3c(x, y, z, b=0):
        return x - y + z + b + off
    return p3c


def make_pt(off):
    def ptc(x, y, z, *, t, c=0):
        return x + y + 2 * z - c + t + off
    return ptc


TWINS = {"P2b", "P3b", "PTb"}
SHIPPED = {"RU", "RD", "CF", "CL"}
CONSTS = {"K2", "K3", "KC2", "KC3"}
LOOP = dict(current=40.0, radius=1.5, center=(0.3, -0.2, 0.4))      # CurrentLoop(uA, um); potential in mT um


def loop_reference(points):
    """Vector potential of the current loop at the points, by direct quadrature of the Biot-Savart line integral
    A(r) = mu0 I / (4 pi) * closed integral dl' / |r - r'|  (written here; the package uses elliptic integrals).
    Units: I in uA, lengths in um -> A in mT um = 1e-4 * I * integral."""
    n = 20000
    phi = (np.arange(n) + 0.5) * (2 * np.pi / n)
    cx, cy, cz = LOOP["center"]
    a = LOOP["radius"]
    src = np.stack([cx + a * np.cos(phi), cy + a * np.sin(phi), np.full(n, cz)], axis=1)
    dl = np.stack([-a * np.sin(phi), a * np.cos(phi), np.zeros(n)], axis=1) * (2 * np.pi / n)
    out = []
    for r in np.asarray(points, dtype=float):
        d = np.linalg.norm(r[None, :] - src, axis=1)
        out.append(1e-4 * LOOP["current"] * (dl / d[:, None]).sum(axis=0))
    return np.array(out)


# leaves used when an expression is handed to the solver: a vector potential, a scalar ramp
def vecpot3(x, y, z, *, B=0.1):
    return 0.5 * B * np.stack([-y, x, np.zeros_like(x)], axis=1)


def vecpot2(x, y, B=0.1):
    return 0.5 * B * np.stack([-y, x, np.zeros_like(x)], axis=1)


def ramp(x, y, z, *, t, rate=0.5):
    return 1.0 + rate * t


def make_leaf(tdgl, k, flavour="exact"):
    P = tdgl.Parameter
    if k == "I":
        return 2
    if k == "F":
        return 0.5
    if flavour == "main" or flavour.startswith("module:"):
        # the same leaves, wrapping plain named functions p2 / p3 / pt of the driver script's __main__
        # (or of a named module that holds the same definitions)
        import importlib
        import sys

        m = sys.modules["__main__"] if flavour == "main" else importlib.import_module(flavour.split(":", 1)[1])
        return {"P2": lambda: P(m.p2, a=2), "P3": lambda: P(m.p3, b=1), "PT": lambda: P(m.pt, time_dependent=True, c=1)}[k]()
    if k in CONSTS:
        return tdgl.Constant(KCVAL if k.startswith("KC") else 0.5, dimensions=int(k[-1]))
    if k in SHIPPED:
        # the leaves the package ships (tdgl.sources), with non-default arguments
        src = tdgl.sources
        return {"RU": lambda: src.LinearRamp(tmin=0.5, tmax=2.5, initial=-0.5, final=1.5),
                "RD": lambda: src.LinearRamp(tmin=0.5, tmax=2.5, initial=1.0, final=0.25),
                "CF": lambda: src.ConstantField(2.0, field_units="mT", length_units="um"),
                "CL": lambda: src.CurrentLoop(**LOOP)}[k]()
    if flavour == "twin":
        return {"P2": lambda: P(p2r, a=2, r0=np.array([1e-9, 0.0])), "P2b": lambda: P(p2r, a=2, r0=np.array([-1e-9, 0.0])),
                "P3": lambda: P(make_p3(0.0), b=1), "P3b": lambda: P(make_p3(2.0), b=1),
                "PT": lambda: P(make_pt(0.0), time_dependent=True, c=1),
                "PTb": lambda: P(make_pt(-3.0), time_dependent=True, c=1)}[k]()
    if flavour == "exact":
        if k == "P2":
            return P(p2, a=2)
        if k == "P3":
            return P(p3, b=1)
        if k == "PT":
            return P(pt, time_dependent=True, c=1)
    else:
        if k == "P2":
            return P(vecpot2, B=0.2)
        if k == "P3":
            return P(vecpot3, B=0.2)
        if k == "PT":
            return P(ramp, time_dependent=True, rate=0.5)
    raise ValueError(k)


def build(tdgl, tree, flavour="exact"):
    """The expression built with the real classes, through the Python operators."""
    if flavour == "exact" and kinds(tree) & TWINS:
        flavour = "twin"      # every leaf of a twinned expression comes from the twin-capable definitions
    if tree["k"] == "C":
        # a number of any value (ParamAlg.Num; units of 1/Q): an int where it is integral, as Python's arithmetic on 2 and 0.5 gives
        v = tree["v"] / Q
        return int(v) if v == int(v) and abs(tree["v"]) >= Q else v
    if tree["k"] != "N":
        return make_leaf(tdgl, tree["k"], flavour)
    left = build(tdgl, tree["l"], flavour)
    right = build(tdgl, tree["r"], flavour)
    return OPS[tree["op"]](left, right)


def show(tree):
    if tree["k"] == "C":
        return f"{tree['v'] / Q:g}"
    if tree["k"] != "N":
        return {"I": "2", "F": "0.5"}.get(tree["k"], tree["k"])
    return f"({show(tree['l'])} {OPSYM[tree['op']]} {show(tree['r'])})"


def level(tree):
    return 0 if tree["k"] != "N" else 1 + max(level(tree["l"]), level(tree["r"]))


def kinds(tree):
    return {tree["k"]} if tree["k"] != "N" else kinds(tree["l"]) | kinds(tree["r"])


def leaf_value(k, point, t=0.0):
    """Value of an abstract parameter leaf as built by make_leaf (flavour exact), from the definitions above."""
    x, y, z = point
    return {"P2": lambda: p2(x, y, a=2), "P3": lambda: p3(x, y, z, b=1), "PT": lambda: pt(x, y, z, t=t, c=1)}[k]()


def chain_stats(items):
    """Vacuity numbers for the chains of scalars (ParamAlg.ScalarChain): how many were enumerated per nesting and operator,
    how many single-operator forms they are compared with, and - for ((X ** 2) ** 0.5) - at how many (leaf, point, time)
    the leaf is NEGATIVE and the model's value is the exact |leaf| (so the value is claimed, not outside the domain)."""
    per, nfold, nabs = {}, 0, 0
    for it in items:
        if not it.get("chain"):
            continue
        tr = it["tree"]
        left = tr["r"]["k"] in ("I", "F") and tr["l"]["k"] == "N"
        per[f"{'left' if left else 'right'}:{tr['op']}"] = per.get(f"{'left' if left else 'right'}:{tr['op']}", 0) + 1
        nfold += sum(1 for o in it["eqs"] if o["k"] == "N" and "C" in (o["l"]["k"], o["r"]["k"]))
        if left and tr["op"] == "pow" and tr["l"]["r"]["k"] == "I" and tr["r"]["k"] == "F":
            k = tr["l"]["l"]["k"]
            for f, kind in it["expect"].items():
                if kind != "val":
                    continue
                for n, t in enumerate(TIMES):
                    for j, a in enumerate(("s1", "s2", "s3")):
                        v = leaf_value(k, BASE[j], t / Q)
                        if v < 0 and it["vals"][f][n][a] == [round(-v * Q)]:
                            nabs += 1
    return per, nfold, nabs


# ---------------------------------------------------------------- abstraction


def absval(v, tol=1e-9):
    """A concrete value -> units of 1/Q if it is an exact dyadic of the domain, else NOTEXACT."""
    if isinstance(v, (complex, np.complexfloating)):
        if abs(v.imag) > 1e-9 * max(1.0, abs(v.real)):
            return NOTEXACT
        v = v.real
    try:
        f = float(v)
    except (TypeError, ValueError):
        return NOTEXACT
    if not np.isfinite(f):
        return NOTEXACT
    u = f * Q
    r = round(u)
    if abs(u - r) <= tol * max(1.0, abs(u)) and abs(r) <= LIM:
        return int(r)
    return NOTEXACT


def observe(fn):
    try:
        with np.errstate(all="ignore"), warnings.catch_warnings():
            warnings.simplefilter("ignore")
            v = fn()
            if _UNIT[0] is not None:
                v = np.asarray(v) / _UNIT[0]     # an expression linear in a leaf of opaque value, in units of that value
    except Exception as e:  # the class of the exception is the observation
        return {"k": "x", "cls": type(e).__name__}
    try:
        arr = np.asarray(v)
    except Exception:
        return {"k": "o"}
    if arr.dtype == object or arr.ndim > 1:
        return {"k": "o"}
    if arr.ndim == 0:
        return {"k": "v", "v": [absval(arr.item())]}
    return {"k": "v", "v": [absval(e) for e in arr.tolist()]}


def nodes(obj, tdgl, path="o"):
    """(path, node) for every Parameter node of a built object."""
    out = []
    if isinstance(obj, tdgl.Parameter):
        out.append((path, obj))
        if isinstance(obj, tdgl.parameter.CompositeParameter):
            d = getattr(obj, "__dict__", {})
            if "left" in d:
                out += nodes(d["left"], tdgl, path + "l")
            if "right" in d:
                out += nodes(d["right"], tdgl, path + "r")
    return out


def filled(obj, tdgl):
    res = []
    for path, n in nodes(obj, tdgl):
        try:
            c = n._cache
        except AttributeError:
            continue
        if c:
            res.append(path)
    return res


def call_args(form, arg, t_units):
    if arg == "arr":
        x, y, z = (np.array([p[i] for p in BASE], dtype=float) for i in range(3))
    else:
        x, y, z = BASE[int(arg[1]) - 1]
    args = (x, y) if form in ("F2", "F2T") else (x, y, z)
    kw = {"t": t_units / Q} if form in ("F2T", "F3T") else {}
    return args, kw


def call_event(tdgl, obj, who, form, t_units):
    obs = {}
    for a in ARGS:
        args, kw = call_args(form, a, t_units)
        obs[a] = observe(lambda: obj(*args, **kw))
    return {"ev": "call", "who": who, "f": form, "t": t_units, "obs": obs, "fill": filled(obj, tdgl)}


def retune_event(tdgl, obj, c_units):
    """The keyword argument c of every time-dependent leaf of the built object set to c, in place (Parameter.kwargs is a
    public attribute and takes part in the cache key).  Integral values are set as Python ints, others as floats."""
    c = c_units / Q
    c = int(c) if c == int(c) else c
    n = 0
    for _, node in nodes(obj, tdgl):
        if not isinstance(node, tdgl.parameter.CompositeParameter) and node.time_dependent and "c" in node.kwargs:
            node.kwargs["c"] = c
            n += 1
    return {"ev": "retune", "who": "orig", "c": c_units, "n": n}


STATIC_KW = {"a": 2, "b": 1}      # keyword of the static leaves P2 / P2b (a = 2 s) and P3 / P3b (b = s)


def retune_static_event(tdgl, obj, who, s_units):
    """The keyword argument of every static (time-independent) leaf of the object set in place: b = s, a = 2 s."""
    s = s_units / Q
    s = int(s) if s == int(s) else s
    n = 0
    for _, node in nodes(obj, tdgl):
        if isinstance(node, tdgl.parameter.CompositeParameter) or node.time_dependent:
            continue
        for name, mult in STATIC_KW.items():
            if name in node.kwargs:
                node.kwargs[name] = mult * s
                n += 1
    return {"ev": "retune_s", "who": who, "s": s_units, "n": n}


def val_form(item):
    """The (argument form, time) in which the expression answers (ParamAlg.ValForm), or None."""
    exp = item.get("expect", {})
    for f, t in (("F3T", 64), ("F3", 0), ("F2", 0)):
        if exp.get(f) == "val":
            return f, t
    return None


ARR_PTS = {"arr": (0, 1, 2), "arr2": (2, 0, 1), "arr3": (1, 1, 0),       # ParamAlg.ArgPts (0-based)
           "arrY": (3, 4, 5), "arrZ": (6, 7, 8), "arrI": (9, 10, 11), "i1": (9,), "i2": (10,)}
# (content, buffer) per call, at one time: the same memory re-delivered with other content, slices and strided views of
# base buffers overwritten in place, and temporaries created for the call in a loop
DELIVERIES = [("arr", "b1"), ("arr2", "b1"), ("arr3", "b1"), ("arr", "b1"),
              ("arr", "v1"), ("arr2", "v1"), ("arr3", "s1"), ("arr", "s1"),
              ("arr", "tmp"), ("arr2", "tmp"), ("arr3", "tmp"), ("arr", "tmp"),
              # fresh arrays in which only y, or only z, differs from the call before (parallel cuts, other heights)
              ("arrY", "tmp"), ("arrZ", "tmp"), ("arr", "tmp"), ("arrZ", "b1"), ("arrY", "b1")]
# integer-typed points: an int64 array, Python ints (expressions without ** : integer powers of integer arrays are numpy's)
INT_DELIVERIES = [("arrI", "tmp"), ("i1", "tmp"), ("i2", "tmp")]


class Buffers:
    """Memory the evaluation points are delivered in (three coordinates each)."""

    def __init__(self):
        self.b1 = [np.empty(3) for _ in range(3)]
        self.base = [np.zeros(8) for _ in range(3)]
        self.v1 = [b[1:4] for b in self.base]              # slices of a larger base buffer
        self.base2 = [np.zeros(6) for _ in range(3)]
        self.s1 = [b[::2] for b in self.base2]             # strided views

    def deliver(self, a, b):
        coords = [np.array([POINTS[i][c] for i in ARR_PTS[a]], dtype=float) for c in range(3)]
        if b == "tmp":
            return coords                                   # fresh arrays, dropped after the call
        bufs = getattr(self, b)
        for n, (buf, c) in enumerate(zip(bufs, coords)):
            if n == 1 and len(set(c.tolist())) == 1:
                buf.fill(c[0])                              # ys.fill(y0)
            else:
                buf[:] = c                                  # overwritten in place: same memory, other content
        return bufs


def deliver_form(tree):
    k = kinds(tree)
    two, three = k & {"P2", "P2b", "K2", "KC2"}, k & {"P3", "P3b", "K3", "KC3"}
    if k & {"PT", "PTb"}:
        return None if two else "F3T"
    if two:
        return None if three else "F2"
    return "F3"


def ops_of(tree):
    return set() if tree["k"] != "N" else {tree["op"]} | ops_of(tree["l"]) | ops_of(tree["r"])


def deliver_events(tdgl, obj, tree):
    form = deliver_form(tree)
    if form is None:
        return []
    bufs, out = Buffers(), []
    t_units = 64 if form == "F3T" else 0
    sched = list(DELIVERIES)
    if "pow" not in ops_of(tree):
        sched += INT_DELIVERIES
    for a, b in sched:
        if a in ("arrI", "i1", "i2"):
            pts = [POINTS[i] for i in ARR_PTS[a]]
            x, y, z = ([int(p[c]) for p in pts] for c in range(3))
            x, y, z = (np.array(v, dtype=np.int64) for v in (x, y, z)) if a == "arrI" else (x[0], y[0], z[0])
        else:
            x, y, z = bufs.deliver(a, b)
        args = (x, y) if form == "F2" else (x, y, z)
        kw = {"t": t_units / Q} if form == "F3T" else {}
        obs = observe(lambda: obj(*args, **kw))
        out.append({"ev": "deliver", "f": form, "t": t_units, "a": a, "b": b, "obs": obs, "fill": filled(obj, tdgl)})
        del x, y, z, args
    return out


_LOOP_REF = {}


def shipped_events(tdgl, obj, tree):
    """An expression on shipped leaves, evaluated on the three points as arrays at every time: the (3, 3) array it
    returns, abstracted row by row (for an expression linear in the current loop: its x, y columns in units of the
    loop's own potential computed here by quadrature)."""
    ks = kinds(tree)
    td = bool(ks & {"RU", "RD"})
    loop = "CL" in ks
    out = []
    for t_units in (TIMES if td else [0]):
        x, y, z = (np.array([p[i] for p in BASE], dtype=float) for i in range(3))
        kw = {"t": t_units / Q} if td else {}
        try:
            with np.errstate(all="ignore"):
                v = np.asarray(obj(x, y, z, **kw), dtype=float)
            if v.shape != (3, 3):
                obs = {"k": "o"}
            elif loop:
                if "ref" not in _LOOP_REF:
                    _LOOP_REF["ref"] = loop_reference(BASE)
                ref = _LOOP_REF["ref"][:, :2]
                obs = {"k": "v", "v": [absval(e, tol=1e-6) for e in (v[:, :2] / ref).ravel().tolist()]}
            else:
                obs = {"k": "v", "v": [absval(e) for e in v.ravel().tolist()]}
        except Exception as e:
            obs = {"k": "x", "cls": type(e).__name__}
        out.append({"ev": "deliver", "f": "F3T" if td else "F3", "t": t_units, "a": "vec2" if loop else "vec", "b": "tmp",
                    "obs": obs, "fill": filled(obj, tdgl)})
    return out


def clear_event(tdgl, obj, who):
    try:
        obj._clear_cache()
        ok, cls = True, ""
    except Exception as e:
        ok, cls = False, type(e).__name__
    return {"ev": "clear", "who": who, "ok": ok, "cls": cls, "left": filled(obj, tdgl)}


def b2s(f):
    return "T" if f else "F"


def eq_event(a, b, other_tree):
    try:
        r = a == b
        res = b2s(r) if isinstance(r, (bool, np.bool_)) else "notbool"
    except Exception as e:
        res = "exc:" + type(e).__name__
    return {"ev": "eq", "other": other_tree, "res": res}


# (argument form, time) per call; every call goes to the three scalar points and to the array of them.  Times repeat, and
# negative times follow positive ones and one another in both orders: t = -1 then -2 then -1 on the original, -2 then -1 on
# the unpickled copy, -0.5 next to 0, -1 next to 1 (what a cache keyed by less than the time itself cannot tell apart)
ORIG_CALLS = [("F2", 0), ("F3", 0), ("F2T", 64), ("F3T", 64), ("F3T", 192), ("F3T", 64), ("F3T", 0),
              ("F3T", -64), ("F3T", -128), ("F3T", -64), ("F3T", -32), ("F3T", 0), ("F2T", -128)]
COPY_CALLS = [("F2", 0), ("F3", 0), ("F3T", 192), ("F3T", 64), ("F3T", -128), ("F3T", -64), ("F3T", -32)]
# the keyword argument c of the time-dependent leaves (1 as built) edited in place, each edit followed by a call in the form
# that answers, at one and the same time: c = -1, -2, -1, 2, and back to 1 (what the rest of the exercise assumes)
RETUNES = [-64, -128, -64, 128, 64]
RETUNE_CALL = ("F3T", 64)
# the keyword argument of the static leaves (b = 1 / a = 2 as built) edited in place, each edit followed by a call in the form
# that answers at one and the same time, a call in that form coming first; back to the built value at the end
RETUNES_S = [-64, -128, -64, 128, 64]
COPY_RETUNES_S = [-64, 64]
STATIC_LEAVES = {"P2", "P2b", "P3", "P3b"}


def exercise(tdgl, item, tmp=None):
    """One enumerated expression -> trace of what the real objects did."""
    try:
        return _exercise(tdgl, item, tmp)
    finally:
        _UNIT[0] = None


def _exercise(tdgl, item, tmp=None):
    import cloudpickle

    tree = item["tree"]
    ev = []
    tr = {"tree": tree, "ev": ev, "label": show(tree)}
    _UNIT[0] = KCVAL if kinds(tree) & {"KC2", "KC3"} else None
    try:
        obj = build(tdgl, tree)
    except Exception as e:
        ev.append({"ev": "build", "ok": False, "td": "unset", "cls": type(e).__name__, "msg": str(e)[:120]})
        return tr
    try:
        td = b2s(obj.time_dependent)
    except AttributeError:
        td = "unset"
    ev.append({"ev": "build", "ok": True, "td": td, "cls": ""})
    # equality: a second object built from the same tree, and neighbours chosen by the driver
    for other in [tree] + list(item.get("others", [])):
        try:
            o2 = build(tdgl, other)
        except Exception:
            continue
        ev.append(eq_event(obj, o2, other))
    shipped = bool(kinds(tree) & SHIPPED)
    if shipped:
        ev += shipped_events(tdgl, obj, tree)
    else:
        for form, t in item.get("calls", ORIG_CALLS):
            ev.append(call_event(tdgl, obj, "orig", form, t))
        if item.get("retune", "calls" not in item) and kinds(tree) & {"PT", "PTb"}:
            for c in RETUNES:
                ev.append(retune_event(tdgl, obj, c))
                ev.append(call_event(tdgl, obj, "orig", *RETUNE_CALL))
        vf = val_form(item)
        do_static = item.get("retune", "calls" not in item) and vf is not None and bool(kinds(tree) & STATIC_LEAVES)
        if do_static:
            ev.append(call_event(tdgl, obj, "orig", *vf))
            for s in RETUNES_S:
                ev.append(retune_static_event(tdgl, obj, "orig", s))
                ev.append(call_event(tdgl, obj, "orig", *vf))
        if item.get("deliver", True):
            ev += deliver_events(tdgl, obj, tree)
    if item.get("clear", True):
        ev.append(clear_event(tdgl, obj, "orig"))
    # (tdgl.Constant wraps a function local to its constructor: the standard pickler cannot store a bare one - that is the
    # standard pickler's rule for local functions, not the package's; inside a composite the operands go through cloudpickle)
    bare_const = tree["k"] in CONSTS
    for method in item.get("pickles", ["cloudpickle"] if bare_const else ["pickle", "cloudpickle"]):
        mod = pickle if method == "pickle" else cloudpickle
        try:
            blob = mod.dumps(obj)
        except Exception as e:
            ev.append({"ev": "pickle", "ok": False, "cls": type(e).__name__, "method": method})
            break
        ev.append({"ev": "pickle", "ok": True, "cls": "", "method": method})
        try:
            cp = pickle.loads(blob)
        except Exception as e:
            ev.append({"ev": "unpickle", "ok": False, "cls": type(e).__name__, "td": "unset", "eq": "unset"})
            break
        try:
            ctd = b2s(cp.time_dependent)
        except AttributeError:
            ctd = "unset"
        try:
            r = cp == obj
            ceq = b2s(r) if isinstance(r, (bool, np.bool_)) else "notbool"
        except Exception as e:
            ceq = "exc:" + type(e).__name__
        ev.append({"ev": "unpickle", "ok": True, "cls": "", "td": ctd, "eq": ceq})
        for form, t in ([] if shipped else item.get("copy_calls", COPY_CALLS)):
            ev.append(call_event(tdgl, cp, "copy", form, t))
        if not shipped and item.get("retune", "calls" not in item) and val_form(item) and kinds(tree) & STATIC_LEAVES:
            ev.append(call_event(tdgl, cp, "copy", *val_form(item)))
            for s in COPY_RETUNES_S:
                ev.append(retune_static_event(tdgl, cp, "copy", s))
                ev.append(call_event(tdgl, cp, "copy", *val_form(item)))
        if item.get("clear", True):
            ev.append(clear_event(tdgl, cp, "copy"))
    return tr


def exercise_many(tdgl, args, tmp=None):
    return [exercise(tdgl, it) for it in args["items"]]


def solve_tree(tdgl, args, tmp):
    """Hand one expression (leaves: vector potential / scalar ramp / numbers) to the real solver."""
    import os
    import tempfile

    from . import devices

    tree = args["tree"]
    ev = []
    tr = {"tree": tree, "ev": ev, "label": "solve " + show(tree)}
    try:
        obj = build(tdgl, tree, "solver")
        td = b2s(obj.time_dependent)
    except Exception as e:
        ev.append({"ev": "build", "ok": False, "td": "unset", "cls": type(e).__name__})
        return tr
    ev.append({"ev": "build", "ok": True, "td": td, "cls": ""})
    dev = devices.make(tdgl, "film", mel=1.3, probes=0)
    d = tempfile.mkdtemp(prefix="psolve", dir=tmp)
    opts = tdgl.SolverOptions(solve_time=0.3, dt_init=1e-2, dt_max=5e-2, save_every=5,
                              output_file=os.path.join(d, "out.h5"), progress_interval=10 ** 9)
    std = "unset"
    try:
        # tdgl.solve(device, options, applied_vector_potential=...) is exactly these two calls
        solver = tdgl.TDGLSolver(dev, opts, applied_vector_potential=obj)
        std = b2s(solver.dynamic_vector_potential)      # what the solver took the expression for
        sol = solver.solve()
        ok, cls, msg = sol is not None, "", ""
    except Exception as e:
        ok, cls, msg = False, type(e).__name__, str(e)[:160]
    ev.append({"ev": "solve", "ok": ok, "cls": cls, "msg": msg, "td": std})
    return tr


# ---------------------------------------------------------------- TLC side


def constants(max_level, mod, seed, mech, deep=9973, var=1):
    lines = ["CONSTANTS", f" MaxLevel = {max_level}", f" SampleMod = {mod}", f" DeepMod = {deep}", f" VarMod = {var}", f" SampleSeed = {seed}"]
    lines += [f" {k} = {'TRUE' if v else 'FALSE'}" for k, v in mech.items()]
    return "\n".join(lines) + "\n"


def model_cfg(max_level, mod, seed, mech, invariants, spec="Spec", deep=9973, var=1):
    return (constants(max_level, mod, seed % 9973, mech, deep, var) + f"SPECIFICATION {spec}\n"
            + "".join(f"INVARIANT {i}\n" for i in invariants) + "CHECK_DEADLOCK FALSE\n")


def trace_cfg(mech=MECH, invariants=INVARIANTS):
    return model_cfg(9, 1, 0, mech, ["Accepted"] + [i for i in invariants if i != "TypeOK"], spec="TSpec")


def design_canaries(ctx, cases, timeout=600, module="ParamAlg"):
    """cases: list of (label, cfg_text, invariant that MUST be violated[, module]).  Run concurrently (TLC -workers 2 each)."""
    def one(n, label, cfg, inv, mod=module):
        return label, inv, core.run_tlc(mod, cfg, ctx.tmp / f"tlc_canary_{mod}_{n}", workers=2, timeout=timeout)

    with cf.ThreadPoolExecutor(len(cases)) as ex:
        futs = [ex.submit(one, n, *c) for n, c in enumerate(cases)]
        for f in futs:
            label, inv, r = f.result()
            ctx.cov["models"].append({"model": label, "distinct_states": r.distinct, "states_generated": r.generated,
                                      "depth": r.depth, "wall_s": round(r.wall, 2), "violated": r.violated,
                                      "expected_violation": inv})
            if inv not in r.violated:
                raise core.MachineryFailure(f"{label}: expected TLC to report {inv}, got {r.violated} "
                                            f"errors={r.errors[:3]}\n{r.out[-1500:]}")
            ctx.cov["canaries_rejected"] += 1


def parse_export(r):
    items = []
    for line in r.printed():
        if line.startswith('"{'):
            items.append(json.loads(json.loads(line)))
    return items


def normalise(tr):
    """What the trace specification reads (drops free-text fields)."""
    ev = []
    for e in tr["ev"]:
        e = {k: v for k, v in e.items() if k not in ("msg", "method")}
        ev.append(e)
    return {"tree": tr["tree"], "ev": ev}


def validate_parallel(ctx, traces, name, nbatch=4, timeout=900):
    """Batch trace validation with several TLC processes (each -workers 1).  Returns the set of accepted ids."""
    if not traces:
        return set()
    size = max(1, (len(traces) + nbatch - 1) // nbatch)
    chunks = [(s, traces[s:s + size]) for s in range(0, len(traces), size)]
    tdir = ctx.tmp / "traces"
    tdir.mkdir(exist_ok=True)
    cfg = trace_cfg()

    def one(n, start, chunk):
        tf = tdir / f"pa_{name}_{n}.json"
        tf.write_text(json.dumps(chunk))
        r = core.run_tlc("ParamAlgTrace", cfg, ctx.tmp / f"tlc_{name}_{n}", workers=1, timeout=timeout,
                         env={"TRACE_FILE": str(tf)})
        return start, len(chunk), r

    accepted = set()
    with cf.ThreadPoolExecutor(len(chunks)) as ex:
        futs = [ex.submit(one, n, s, c) for n, (s, c) in enumerate(chunks)]
        for f in futs:
            start, n, r = f.result()
            ctx.cov["models"].append({"model": f"ParamAlgTrace[{name}] (trace validation)", "traces": n,
                                      "distinct_states": r.distinct, "states_generated": r.generated,
                                      "wall_s": round(r.wall, 2), "violated": r.violated})
            if r.errors or (not r.finished and not r.violated):
                raise core.MachineryFailure(f"ParamAlgTrace[{name}]: TLC failed on traces: {r.errors[:3]}\n{r.out[-3000:]}")
            ctx.cov["states"] += r.distinct
            ctx.cov["transitions"] += r.generated
            for line in r.printed():
                m = re.match(r'<<"ACCEPT", (\d+)>>', line)
                if m:
                    accepted.add(start + int(m.group(1)) - 1)
    return accepted


def clause_of(event, violated):
    if violated:
        return ",".join(violated)
    return {"build": "NestingTotal/TimeDepIffSomeOperand", "eq": "EqIsStructural", "call": "EvalIsPointwise", "retune": "no-matching-action", "retune_s": "no-matching-action", "deliver": "EvalIsPointwise (array call)",
            "clear": "ClearCacheTotal", "pickle": "PickleRoundTrip", "unpickle": "PickleRoundTrip",
            "solve": "SolverAcceptsComposite"}.get(event, "no-matching-action")


def shape_class(tr, far):
    """Coarse class of a rejected trace: event kind + who + what was seen (the key findings are listed under)."""
    ev = tr["ev"]
    e = ev[far - 1] if 0 < far <= len(ev) else {}
    what = e.get("ev", "?")
    who = e.get("who", "")
    cls = e.get("cls", "")
    if what == "call":
        xs = sorted({o.get("cls", "") for o in e["obs"].values() if o["k"] == "x"})
        cls = "+".join(xs) if xs else "value"
    if what == "unpickle":
        cls = cls or f"td={e.get('td')},eq={e.get('eq')}"
    return f"{what}{'/' + who if who else ''}:{cls or 'mismatch'}"


def report_rejected(ctx, pid, traces, norm, accepted, what, max_diag=8):
    """Every rejected trace is a violation (verdict sources 2/3); a few per class are diagnosed with TLC."""
    rejected = [n for n in range(len(norm)) if n not in accepted]
    per_class = {}
    cfg = trace_cfg()
    diagnosed = 0
    for n in rejected:
        tr = traces[n]
        # cheap pre-classification by the first event that carries an exception (only to limit TLC diagnoses)
        pre = next((f"{e['ev']}{'/' + e['who'] if e.get('who') else ''}:{e.get('cls') or 'slots-lost'}" for e in tr["ev"]
                    if e.get("cls") or (e["ev"] == "unpickle" and (e["td"] == "unset" or e["eq"] != "T"))), "values")
        if per_class.get(pre, 0) >= 2 or diagnosed >= max_diag:
            per_class[pre] = per_class.get(pre, 0) + 1
            continue
        per_class[pre] = per_class.get(pre, 0) + 1
        diagnosed += 1
        far, violated, tail = ctx.diagnose_trace("ParamAlgTrace", norm[n], cfg)
        e = tr["ev"][far - 1] if 0 < far <= len(tr["ev"]) else None
        clause = clause_of(e["ev"] if e else "?", violated)
        sc = shape_class(tr, far)
        ctx.violation(f"{pid}:{what}:{sc}:{tr['label']}",
                      f"{what}: the real objects' behaviour for {tr['label']} is not a behaviour of ParamAlg "
                      f"(clause {clause}); matched {max(far - 1, 0)}/{len(tr['ev'])} events; stuck at event {far}: "
                      f"{json.dumps(e, default=str)[:400]}",
                      {"tree": tr["tree"], "expression": tr["label"], "trace": tr, "stuck_at": far,
                       "violated": violated, "tlc_tail": tail})
    ctx.cov[f"rejected_traces[{what}]"] = {"total": len(rejected), "by_first_exception": per_class}
    return rejected


def corrupt_value(tr):
    """Canary: shift one observed value of one call by one unit (1/Q)."""
    tr = _copy.deepcopy(tr)
    for e in tr["ev"]:
        if e["ev"] == "call":
            for a in ARGS:
                o = e["obs"][a]
                if o["k"] == "v" and all(v != NOTEXACT for v in o["v"]):
                    o["v"][0] += 1
                    return tr
    return None


def corrupt_flag(tr):
    tr = _copy.deepcopy(tr)
    e = tr["ev"][0]
    if e["ev"] == "build" and e["ok"]:
        e["td"] = "F" if e["td"] == "T" else "T"
        return tr
    return None
