"""Shared machinery for the properties decided with the TdglRun specification
(C05, C11, C15, C19): model checking, behaviour export, parallel replay against the
real code, batch trace validation, canaries."""
from __future__ import annotations

import copy
import json
import multiprocessing as mp
import os
import random

from . import core

# The mechanism the specification prescribes for the current tree (see TdglRun.tla, M*).
# PINNED is the mechanism of the pinned commit: kept as a design-level canary — the
# properties must FAIL on it (that is how the defects D6..D14 were exhibited by TLC).
MECH = dict(MStopBeforeUpdate=True, MSqueeze=False, MTimesZeroFirst=True, MRollback=True,
            MCleanClash=True, MEmptyLoads=True, MSaveValid=True, MFinalGuard=True, MResumeRepeats=True)
PINNED = dict(MStopBeforeUpdate=False, MSqueeze=True, MTimesZeroFirst=False, MRollback=False,
              MCleanClash=False, MEmptyLoads=False, MSaveValid=False, MFinalGuard=False, MResumeRepeats=False)

INV_C05 = ["TypeOK", "FrameHoldsExactlyStepUpdates", "FrameTimeIsSumOfSteps", "FramesAtMultiplesAndEnd",
           "FramesSoFarAtMultiples", "RecordsOncePerStepInOrder", "FirstFrameHasNoRecords",
           "StopsAtFirstStepReachingSolveTime", "ThermalisationNeverRecorded", "RecordedTimeRestartsAtZero",
           "LoadedTimesAreFrameTimes", "LoadedDynamicsAreTheRecords", "UndisturbedRunLoads"]
INV_C11 = ["ContentIndependentOfRecording", "ResumeReproduces"]
INV_C15 = ["TypeOK", "AllHandlesClosedOnReturn", "NoTempLeft", "TempDirRemoved", "ForeignFilesUntouched",
           "NoStrayOutput", "FreshNameChosen", "OutputHoldsOnlyCompleteFrames", "CancelGivesUsableSolution",
           "ErrorPropagates", "FrameHoldsExactlyStepUpdates", "FrameTimeIsSumOfSteps",
           "RecordsOncePerStepInOrder", "LoadedTimesAreFrameTimes", "LoadedDynamicsAreTheRecords"]
INV_C19 = ["RejectedBeforeAnyFile", "IllPosedNeverRuns"]


def tla_set(xs):
    return "{" + ", ".join(core.tla_str(x) for x in xs) + "}"


def constants_text(bounds: dict, mech: dict) -> str:
    b = bounds
    lines = [
        "CONSTANTS",
        f" Ks = {tla_set(b['Ks'])}",
        f" SolveTs = {tla_set(b['SolveTs'])}",
        f" SkipTs = {tla_set(b['SkipTs'])}",
        f" DTS = {tla_set(b['DTS'])}",
        f" MaxFaults = {b['MaxFaults']}",
        f" FaultKinds = {tla_set(b['FaultKinds'])}",
        f" OutModes = {tla_set(b['OutModes'])}",
        " Foreigns = {" + ", ".join(tla_set(f) for f in b["Foreigns"]) + "}",
        f" BadClasses = {tla_set(b['BadClasses'])}",
    ]
    for k, v in mech.items():
        lines.append(f" {k} = {'TRUE' if v else 'FALSE'}")
    return "\n".join(lines) + "\n"


def model_cfg(bounds, mech, invariants, spec="Spec", extra=""):
    return (constants_text(bounds, mech) + f"SPECIFICATION {spec}\n"
            + "".join(f"INVARIANT {i}\n" for i in invariants) + "CHECK_DEADLOCK FALSE\n" + extra)


TRACE_BOUNDS = dict(Ks=[1], SolveTs=[0], SkipTs=[0], DTS=list(range(1, 9)), MaxFaults=4,
                    FaultKinds=["KI", "Err", "KIR"], OutModes=["temp", "path"], Foreigns=[[]], BadClasses=["none"])


def trace_cfg(mech, invariants):
    return model_cfg(TRACE_BOUNDS, mech, ["Accepted"] + list(invariants), spec="TSpec")


def export_behaviours(ctx, bounds, mech, name="TdglRunGen", timeout=900):
    """All terminal behaviours of TdglRun inside the bounds, as replay scripts."""
    cfg = model_cfg(bounds, mech, ["Emit"])
    r = ctx.model_check("TdglRunGen", cfg, name=name + " (behaviour export)", timeout=timeout, count=False)
    scripts = []
    for line in r.printed():
        if line.startswith('"{'):
            scripts.append(json.loads(json.loads(line)))
    return scripts, r


# ------------------------------------------------------------------ parallel replay

_TDGL = None


def _worker_init():
    global _TDGL
    os.environ["NUMBA_NUM_THREADS"] = "1"
    os.environ["OMP_NUM_THREADS"] = "1"
    devnull = os.open(os.devnull, os.O_WRONLY)
    os.dup2(devnull, 2)  # tqdm progress bars
    _TDGL = core.import_tdgl()


def _worker_replay(args):
    from . import runsim

    kind, payload, tmp = args
    try:
        if kind == "script":
            sc = runsim.Script(**payload)
            tr = runsim.replay(_TDGL, sc, tmp)
        elif kind == "natural":
            from . import runnat

            tr = runnat.natural_run(_TDGL, payload, tmp)
        elif kind == "illposed":
            from . import runbad

            tr = runbad.illposed_run(_TDGL, payload, tmp)
        elif kind == "call":
            import importlib

            mod = importlib.import_module(payload["module"])
            tr = getattr(mod, payload["func"])(_TDGL, payload["args"], tmp)
        else:
            raise ValueError(kind)
        return {"ok": True, "trace": tr}
    except BaseException as e:  # harness failure, not an observation
        import traceback

        return {"ok": False, "error": repr(e), "tb": traceback.format_exc()[-2000:]}


def replay_all(ctx, jobs, nproc=None):
    """jobs: list of (kind, payload).  Returns list of traces in order."""
    nproc = nproc or min(14, max(1, (os.cpu_count() or 4) - 2), max(1, len(jobs)))
    tmp = str(ctx.tmp)
    args = [(k, p, tmp) for k, p in jobs]
    if len(jobs) <= 3:
        _worker_init_light()
        res = [_worker_replay(a) for a in args]
    else:
        c = mp.get_context("spawn")
        pool = c.Pool(nproc, initializer=_worker_init)
        try:
            # backstop only: a call of the code under test that does not return is turned into an observation
            # ("hang") by the alarm inside the replay; this timeout guards the harness itself
            res = pool.map_async(_worker_replay, args, chunksize=max(1, len(args) // (nproc * 8))).get(
                timeout=int(os.environ.get("VERIF_POOL_TIMEOUT_S", "3000")))
        except mp.TimeoutError:
            pool.terminate()
            raise core.MachineryFailure("replay pool did not finish within the backstop timeout")
        finally:
            pool.close()
            pool.join()
    out = []
    for r, (k, p) in zip(res, jobs):
        if not r["ok"]:
            raise core.MachineryFailure(f"replay harness failed on {k} {json.dumps(p, default=str)[:300]}: {r['error']}\n{r['tb']}")
        out.append(r["trace"])
    return out


def _worker_init_light():
    global _TDGL
    if _TDGL is None:
        _TDGL = core.import_tdgl()


# ------------------------------------------------------------------ validation


def describe_script(p):
    c = p["cfg"]
    fl = ";".join(f"{f['kind']}@{f['stage']}/{f['where']}/{f['at']}/i{f['i']}" for f in p.get("flog", []))
    return (f"k={c['k']} T={c['solveT']} skip={c['skipT']} out={c['out']} foreign={'+'.join(c.get('foreign', [])) or '-'}"
            f" thermal_dts={p.get('tdts', [])} dts={p.get('simdts', [])} faults=[{fl}] probes={p.get('probes', 0)}"
            f" screening={p.get('screening', False)}" + (f" prior-run-same-path={p['prior']}" if p.get('prior') else "")
            + (f" output_file={p['outname']}" if p.get('outname', 'out.h5') != 'out.h5' else "")
            + (" warnings-as-errors" if p.get("warn_error") else "") + (" pause_on_interrupt" if p.get("pause") else ""))


def fault_class(p):
    """Coarse class of a script's fault history; the key known findings are listed under."""
    fl = p.get("flog", [])
    if not fl:
        return "nofault"
    return "+".join(f"{f['kind']}@{f['where']}/{f['at']}" for f in fl)


def validate(ctx, jobs, traces, mech, invariants, normalise, what, max_report=5, diagnose_spec=None):
    """Validate recorded traces; report each rejected one as a violation (verdict sources
    2 and 3).  Returns the set of accepted indices.
    diagnose_spec (optional): name of a behaviour specification of the trace module used ONLY when a rejected trace is
    re-run alone for its diagnosis (e.g. one that follows the implementation one step past a forbidden action so that
    TLC reports the clause that is false there); acceptance is always decided with TSpec."""
    norm = [normalise(t) for t in traces]
    cfg = trace_cfg(mech, invariants)
    accepted, r = ctx.validate_traces("TdglRunTrace", norm, cfg, name=f"TdglRunTrace[{what}]")
    if r.violated:
        # an accepted prefix drove the model into a state where a property clause is false
        pass
    ctx.cov["traces_validated_against_impl"] += len(accepted)
    rejected = [n for n in range(len(norm)) if n not in accepted]
    reported = 0
    for n in rejected:
        kind, payload = jobs[n]
        key = f"{what}:{fault_class(payload)}:{describe_script(payload) if kind == 'script' else json.dumps(payload, sort_keys=True, default=str)[:200]}"
        fkey = f"{what}:{fault_class(payload)}"
        # known findings are keyed by fault class + clause, matched by prefix
        if reported >= max_report and not any(core.finding_matches(f, fkey) for f in ctx.findings):
            ctx.cov["further_rejected_traces_not_diagnosed"] = ctx.cov.get("further_rejected_traces_not_diagnosed", 0) + 1
            continue
        dcfg = cfg if diagnose_spec is None else model_cfg(TRACE_BOUNDS, mech, ["Accepted"] + list(invariants), spec=diagnose_spec)
        far, violated, tail = ctx.diagnose_trace("TdglRunTrace", norm[n], dcfg)
        evs = norm[n]["ev"]
        clause = ",".join(violated) if violated else "no-matching-action"
        at = evs[far - 1] if 0 < far <= len(evs) else None
        detail = (f"{what}: execution of the real code is not a behaviour of TdglRun ({clause}); "
                  f"matched {max(far - 1, 0)}/{len(evs)} events; stuck at event {far}: {json.dumps(at)[:300]}; "
                  f"input: {describe_script(payload) if kind == 'script' else payload}")
        new = ctx.violation(f"{fkey}:{clause}:{key}", detail,
                            {"kind": kind, "payload": payload, "trace": traces[n], "normalised": norm[n],
                             "stuck_at": far, "violated": violated, "tlc_tail": tail, "mechanism": mech})
        if new:
            reported += 1
    return accepted, norm


def canary(ctx, norm_traces, accepted, mech, invariants, mutate, what):
    """Corrupt one accepted trace; TLC must reject it (binding self-test)."""
    cands = [n for n in sorted(accepted) if mutate(copy.deepcopy(norm_traces[n])) is not None]
    if not cands:
        raise core.MachineryFailure(f"{what}: no accepted trace can carry the canary")
    rnd = random.Random(ctx.seed)
    n = rnd.choice(cands)
    bad = mutate(copy.deepcopy(norm_traces[n]))
    acc, r = ctx.validate_traces("TdglRunTrace", [bad], trace_cfg(mech, invariants), name=f"canary[{what}]", count=False)
    if acc:
        raise core.MachineryFailure(f"{what}: corrupted trace was accepted — the binding is vacuous")
    ctx.cov["canaries_rejected"] += 1


def mutate_frame_content(tr):
    for e in tr["ev"]:
        if e["ev"] == "close" and e["frames"]:
            e["frames"][-1]["content"] += 1
            return tr
    return None


def mutate_drop_update(tr):
    for n, e in enumerate(tr["ev"]):
        if e["ev"] == "update" and e["outcome"] == "ok":
            del tr["ev"][n]
            return tr
    return None


def mutate_leak_tmp(tr):
    for e in tr["ev"]:
        if e["ev"] == "close":
            e["fs"]["t0"] = "closed"
            return tr
    return None


def replay_file(ctx, path, invariants, what):
    """`./check <ID> --replay <file>`: re-execute the recorded input against the current tree and
    re-validate it; prints the verdict for that single case."""
    from . import runsim

    rec = json.load(open(path))
    if "kind" not in rec:
        print(f"replay file {path} records a model-level counterexample:\n{rec.get('counterexample', '')[:3000]}")
        return 1
    job = (rec["kind"], rec["payload"])
    traces = replay_all(ctx, [job])
    accepted, norm = validate(ctx, [job], traces, rec.get("mechanism", MECH), invariants, runsim.normalise_for_tlc, what)
    if accepted:
        print(f"replay: the recorded input is now accepted (property {ctx.pid} holds on it)")
        return 0
    for v in ctx.violations:
        print(f"VIOLATION property={ctx.pid} replay={v['replay']}\n  what: {v['what']}")
    return 1


def apalache_inductive(ctx, timeout=300):
    """Optional extra (DESIGN.md 3.1): discharge the inductive invariant of spec/RunCounters.tla with
    Apalache, lifting two C05 clauses from TLC's bounds to all k >= 1 and all run lengths.  Three
    obligations + one canary (a mutated Update must break the inductive step).  Failures of the
    tool itself are recorded, never turned into a verdict; a refuted obligation is a violation."""
    import shutil
    import subprocess
    import time

    if shutil.which("apalache-mc") is None:
        ctx.cov["apalache"] = "apalache-mc not available"
        return
    work = ctx.tmp / "apalache"
    work.mkdir(exist_ok=True)
    src = (core.SPEC / "RunCounters.tla").read_text()
    (work / "RunCounters.tla").write_text(src)
    (work / "RunCountersBad.tla").write_text(
        src.replace("applied' = applied + 1", "applied' = applied + 2").replace("MODULE RunCounters", "MODULE RunCountersBad"))
    obligations = [("Init => IndInv", "RunCounters.tla", ["--init=Init", "--inv=IndInv", "--length=0"], True),
                   ("IndInv /\\ Next => IndInv'", "RunCounters.tla", ["--init=IndInit", "--inv=IndInv", "--length=1"], True),
                   ("IndInv => C05 clauses", "RunCounters.tla", ["--init=IndInit", "--inv=Props", "--length=0"], True),
                   ("canary: mutated Update breaks the inductive step", "RunCountersBad.tla", ["--init=IndInit", "--inv=IndInv", "--length=1"], False)]
    res = []
    for name, mod, args, want_ok in obligations:
        t0 = time.time()
        try:
            p = subprocess.run(["apalache-mc", "check", "--cinit=ConstInit", *args, f"--out-dir={work}/out", mod],
                               cwd=work, capture_output=True, text=True, timeout=timeout)
            out = p.stdout + p.stderr
        except subprocess.TimeoutExpired:
            res.append({"obligation": name, "result": "timeout"})
            continue
        ok = "EXITCODE: OK" in out
        refuted = "EXITCODE: ERROR (12)" in out
        res.append({"obligation": name, "result": "ok" if ok else ("refuted" if refuted else "tool-error"),
                    "wall_s": round(time.time() - t0, 1)})
        if want_ok and refuted:
            ctx.violation(f"apalache:{name}", f"Apalache refutes '{name}' of RunCounters (all k, all run lengths)",
                          {"output": out[-3000:]})
        if not want_ok and ok:
            raise core.MachineryFailure("Apalache accepted the mutated RunCounters: inductive check is vacuous")
    ctx.cov["apalache_inductive_invariant"] = res
