"""Binding of spec/FieldKernels.tla to the real field code (C20).

* `exact_instances`: TLC's Pythagorean instances through the REAL kernels (biot_savart_2d -> _biot_savart_2d_z /
  _biot_savart_2d_vector in several unit choices; get_A_induced_numba for in-plane instances) and through the
  harness' reference sums (`ref_biot_savart`, `ref_coulomb`), which are thereby themselves checked against TLC;
* `conversions`: convert_field between H and B units, decomposed into 10^a * mu0^b;
* `solved_relations`: a tiny solved device: pairs of observations that a relation of the model requires to agree
  (total vs parts, scalar vs vector, linearity, direct SI sums, unit choices, H vs B, applied + induced, loop laws).
Nothing is decided here: numbers are returned and quantised; TLC validates the traces."""
from __future__ import annotations

import math
import os
import tempfile

L3 = 216000      # lcm of r^3, r = 1..6  (FieldKernels!L3)
L1 = 60          # lcm of r
QUANTUM = 1e-12
RCLIP = 10 ** 9
UNIT_CHOICES = [("m", "A", 0), ("um", "uA", 0), ("nm", "mA", 6), ("mm", "uA", -3)]      # (length, current, log10 of current/length in A/m)

H_UNITS = {"A/m": 0, "mA/um": 3, "kA/m": 3, "A/um": 6, "uA/um": 0, "mA/m": -3, "uA/m": -6}
B_UNITS = {"T": 0, "mT": -3, "uT": -6, "nT": -9}


def ref_biot_savart(np, ev, pos, J, areas):
    """mu0/4pi * sum_k a_k (J_k x (r - r_k)) / |r - r_k|^3 with J in the plane; SI in, tesla out; no tdgl code."""
    from scipy.constants import mu_0
    out = np.zeros((len(ev), 3))
    for i, r in enumerate(ev):
        d = r[None, :] - pos
        w = areas / np.sum(d * d, axis=1) ** 1.5
        out[i, 0] = np.sum(w * J[:, 1] * d[:, 2])
        out[i, 1] = -np.sum(w * J[:, 0] * d[:, 2])
        out[i, 2] = np.sum(w * (J[:, 0] * d[:, 1] - J[:, 1] * d[:, 0]))
    return mu_0 / (4 * np.pi) * out


def ref_coulomb(np, ev, pos, J, areas):
    """mu0/4pi * sum_k a_k J_k / |r - r_k|; SI in, tesla*metre out."""
    from scipy.constants import mu_0
    out = np.zeros((len(ev), 2))
    for i, r in enumerate(ev):
        d = r[None, :] - pos
        w = areas / np.sqrt(np.sum(d * d, axis=1))
        out[i] = (w[:, None] * J).sum(axis=0)
    return mu_0 / (4 * np.pi) * out


def _quantise(values):
    """floats that should be integers -> (ints, residual in quanta relative to the largest of them)."""
    flat = [float(x) for x in values]
    ints = [int(max(-2 * RCLIP, min(2 * RCLIP, round(x)))) if x == x and abs(x) != float("inf") else 2 * RCLIP for x in flat]
    scale = max([1.0] + [abs(n) for n in ints])
    res = max([abs(x - n) for x, n in zip(flat, ints)] + [0.0]) / scale
    return ints, int(min(RCLIP, round(res / QUANTUM)))


def exact_instances(tdgl, args, tmp):
    """-> list of "field" events (without verdict)."""
    import numpy as np
    from scipy.constants import mu_0
    from tdgl.em import biot_savart_2d
    from tdgl.solver.screening import get_A_induced_numba

    pref = mu_0 / (4 * np.pi)
    events = []
    for n, inst in enumerate(args["instances"]):
        el, co = inst["el"], inst["co"]
        d = np.array([e["d"] for e in el], dtype=float)
        a = np.array([e["a"] for e in el], dtype=float)
        j1 = np.array([e["j1"] for e in el], dtype=float)
        j2 = np.array([e["j2"] for e in el], dtype=float)
        jc = co[0] * j1 + co[1] * j2
        dz = d[0, 2]
        p = np.array([1.0, -2.0, dz]) if n % 2 else np.array([0.0, 0.0, dz])      # the evaluation point; elements at p - d, in z = 0
        pos = p[None, :] - d
        assert np.all(pos[:, 2] == 0)
        base = {"ev": "field", "el": el, "co": co}
        if dz != 0:
            for ln, cu, e10 in (UNIT_CHOICES if n % 3 == 0 else UNIT_CHOICES[n % len(UNIT_CHOICES):][:1]):
                bz, bv = [], []
                for J in (j1, j2, jc):
                    kw = dict(positions=pos[:, :2], current_densities=J, z0=0.0, areas=a, length_units=ln, current_units=cu)
                    z = biot_savart_2d(p[0], p[1], p[2], vector=False, **kw).to("tesla").magnitude
                    v = biot_savart_2d(p[0], p[1], p[2], vector=True, **kw).to("tesla").magnitude
                    bz.append(float(np.asarray(z).reshape(-1)[0]) / pref / 10.0 ** e10 * L3)
                    bv.append([float(x) / pref / 10.0 ** e10 * L3 for x in np.asarray(v).reshape(-1)])
                qz, r1 = _quantise(bz)
                qv, r2 = _quantise([x for row in bv for x in row])
                events.append(dict(base, src=f"biot_savart_2d[{ln},{cu}]", bz=qz, bv=[qv[0:3], qv[3:6], qv[6:9]], A=[], r=max(r1, r2)))
            # the harness' reference sums (SI)
            bv = [list(ref_biot_savart(np, p[None, :], pos, J, a)[0] / pref * L3) for J in (j1, j2, jc)]
            A = [list(ref_coulomb(np, p[None, :], pos, J, a)[0] / pref * L1) for J in (j1, j2, jc)]
            qv, r1 = _quantise([x for row in bv for x in row])
            qa, r2 = _quantise([x for row in A for x in row])
            events.append(dict(base, src="reference sums", bz=[qv[2], qv[5], qv[8]], bv=[qv[0:3], qv[3:6], qv[6:9]],
                               A=[qa[0:2], qa[2:4], qa[4:6]], r=max(r1, r2)))
        else:
            # in-plane instance: the screening kernel is the Coulomb sum over sites (site_areas plays a_k)
            A = []
            for J in (j1, j2, jc):
                out = np.full((1, 2), np.nan)
                get_A_induced_numba(np.ascontiguousarray(J), a, np.ascontiguousarray(pos[:, :2]), np.ascontiguousarray(p[None, :2]), out)
                A.append([float(x) * L1 for x in out[0]])
            qa, r1 = _quantise([x for row in A for x in row])
            events.append(dict(base, src="get_A_induced_numba", bz=[], bv=[], A=[qa[0:2], qa[2:4], qa[4:6]], r=r1))
            A = [list(ref_coulomb(np, p[None, :], pos, J, a)[0] / pref * L1) for J in (j1, j2, jc)]
            qa, r1 = _quantise([x for row in A for x in row])
            events.append(dict(base, src="reference sums", bz=[], bv=[], A=[qa[0:2], qa[2:4], qa[4:6]], r=r1))
    return events


def conversions(tdgl, args, tmp):
    """convert_field(1.0, new, old) for every ordered pair of the unit tables -> observed factor decomposed as 10^a mu0^b."""
    from tdgl.em import convert_field, ureg

    mu0 = ureg("mu_0").to_base_units().magnitude
    table = [("H", n, e) for n, e in H_UNITS.items()] + [("B", n, e) for n, e in B_UNITS.items()]
    events = []
    for k1, n1, e1 in table:
        for k2, n2, e2 in table:
            try:
                f = float(convert_field(1.0, n2, old_units=n1, with_units=False))
            except Exception as e:       # the model says the conversion exists: a refusal is an observation (TLC rejects it)
                events.append({"ev": "conv", "u": [k1, e1], "v": [k2, e2], "ten": 99, "mu": 9, "r": RCLIP, "names": [n1, n2],
                               "raised": f"{type(e).__name__}: {e}"[:200]})
                continue
            best = None
            for b in (-1, 0, 1):
                x = f / mu0 ** b
                if x > 0:
                    a = round(math.log10(x))
                    res = abs(x / 10.0 ** a - 1.0)
                    if best is None or res < best[2]:
                        best = (a, b, res)
            a, b, res = best if best else (99, 0, 1.0)
            events.append({"ev": "conv", "u": [k1, e1], "v": [k2, e2], "ten": int(a), "mu": int(b), "r": int(min(RCLIP, round(res / QUANTUM))),
                           "names": [n1, n2]})
    return events


def _history_and_forms(tdgl, sol, dev, add, np, LU, FUv, ev_ref, Jtot):
    """(1) HISTORIES on one Solution object: every query is answered by the long-lived object `sol` (which has answered the
    previous queries) and by a Solution freshly loaded from the file; (2) INPUT FORMS of the same points."""
    m = lambda q: np.asarray(q.magnitude if hasattr(q, "magnitude") else q)
    s_len = 1e-6 / LU                                     # one micrometre in length_units
    xyA = np.array([[0.3, 0.2], [-1.0, 0.7], [2.0, -1.0]]) * s_len
    xyB = np.array([[0.1, -0.4], [1.5, 0.9], [-2.0, 0.3]]) * s_len
    z1, z2 = 0.5 * s_len, 1.5 * s_len
    nsteps = len(sol.times)
    last, mid = nsteps - 1, max(0, nsteps // 2)
    vp = lambda S, xy, z, **kw: m(S.vector_potential_at_position(xy, zs=z, **kw))
    fz = lambda S, xy, z, **kw: m(S.field_at_position(xy, zs=z, **kw))
    queries = [                                            # (description, solve_step, function of the Solution)
        ("A(xyA, z1)", last, lambda S: vp(S, xyA, z1)),
        ("A(xyA, z2) [same xy, other height]", last, lambda S: vp(S, xyA, z2)),
        ("A(xyA, z1) again", last, lambda S: vp(S, xyA, z1)),
        ("A(xyB, z1) [same height, other xy]", last, lambda S: vp(S, xyB, z1)),
        ("A(xyA, z1, units=T*m)", last, lambda S: vp(S, xyA, z1, units="T * m")),
        ("A(xyA, z2, with_units=False)", last, lambda S: vp(S, xyA, z2, with_units=False)),
        ("A(xyA, z1, parts)", last, lambda S: np.concatenate([m(v) for v in S.vector_potential_at_position(xyA, zs=z1, return_sum=False).values()])),
        ("A(xyA, z2) at another solve step", mid, lambda S: vp(S, xyA, z2)),
        ("A(xyA, z1) back at the last step", last, lambda S: vp(S, xyA, z1)),
        ("A((m,3) form of xyA at z2)", last, lambda S: m(S.vector_potential_at_position(np.concatenate([xyA, z2 * np.ones((len(xyA), 1))], axis=1)))),
        ("Bz(xyA, z1)", last, lambda S: fz(S, xyA, z1, vector=False)),
        ("Bvec(xyA, z1) [scalar then vector]", last, lambda S: fz(S, xyA, z1, vector=True)),
        ("Bz(xyA, z2) [same xy, other height]", last, lambda S: fz(S, xyA, z2, vector=False)),
        ("Bvec(xyB, z2, units=uT)", last, lambda S: fz(S, xyB, z2, vector=True, units="uT")),
        ("Bz(xyA, z1) at another solve step", mid, lambda S: fz(S, xyA, z1, vector=False)),
        ("Bz(xyA, z1, with_units=False) back at the last step", last, lambda S: fz(S, xyA, z1, vector=False, with_units=False)),
        ("A(xyA, z2) after the field queries", last, lambda S: vp(S, xyA, z2)),
    ]
    for n, (what, step, q) in enumerate(queries):
        def on_history(step=step, q=q):
            if sol.solve_step != step:
                sol.solve_step = step
            return q(sol)

        def on_fresh(step=step, q=q):
            fresh = tdgl.Solution.from_hdf5(sol.path)
            fresh.solve_step = step
            return q(fresh)
        add("HistoryIndependent", f"query {n + 1} on one Solution object vs a freshly loaded Solution: {what}", on_history, on_fresh)
    sol.solve_step = last
    # ---- input forms (integer coordinates in length_units; only meaningful where 1 length unit is about the device size)
    if abs(LU - 1e-6) < 1e-12:
        ints = [[1, 1], [2, -1], [-2, 0]]
        flt = np.array(ints, dtype=float)
        for zname, zval in (("1.5", 1.5), ("0.5", 0.5), ("int 2", 2)):
            zf = float(zval)
            ref_v = fz(sol, flt, zf, vector=True)
            ref_z = fz(sol, flt, zf, vector=False)
            ref_a = vp(sol, flt, zf)
            forms = {"list of int lists": ints, "int64 array": np.array(ints, dtype=np.int64), "int32 array": np.array(ints, dtype=np.int32),
                     "tuple of tuples": tuple(map(tuple, ints))}
            for fname, P in forms.items():
                add("InputFormIndependent", f"field_at_position(vector) positions as {fname}, zs = {zname} vs float array", lambda P=P: fz(sol, P, zval, vector=True), ref_v)
                add("InputFormIndependent", f"field_at_position(scalar) positions as {fname}, zs = {zname} vs float array", lambda P=P: fz(sol, P, zval, vector=False), ref_z)
                add("InputFormIndependent", f"vector_potential_at_position positions as {fname}, zs = {zname} vs float array", lambda P=P: vp(sol, np.asarray(P), zval), ref_a)
            add("InputFormIndependent", f"field_at_position zs as an array of {zname} vs scalar", lambda: fz(sol, flt, zf * np.ones(len(flt)), vector=True), ref_v)
            add("InputFormIndependent", f"vector_potential_at_position zs as an array of {zname} vs scalar", lambda: vp(sol, flt, zf * np.ones(len(flt))), ref_a)
            P3 = np.concatenate([flt, zf * np.ones((len(flt), 1))], axis=1)
            add("InputFormIndependent", f"field_at_position (m,3) positions with z = {zname} vs (m,2) + zs", lambda: m(sol.field_at_position(P3, vector=True)), ref_v)
            add("InputFormIndependent", f"field_at_position a single position [1, 1] (Python ints), zs = {zname} vs first row of the float form",
                lambda: np.asarray(fz(sol, [1, 1], zval, vector=True)).reshape(-1), ref_v[0])
            ev_m = np.concatenate([flt, zf * np.ones((len(flt), 1))], axis=1) * LU
            add("MatchesDirectSum", f"field_at_position at integer positions, zs = {zname} (int-array form) vs direct Biot-Savart sum",
                lambda: fz(sol, np.array(ints, dtype=np.int64), zval, vector=True) * FUv, ev_ref(ev_m, Jtot))


def solved_relations(tdgl, args, tmp):
    """A tiny device solved in unit system args["u"] = [l, f, c] (exponents of ten of the length, field and current units; mixed
    prefixes allowed); returns relation observations [{name, what, a, b}] as floats, all brought to SI by the harness."""
    import numpy as np
    from scipy.constants import mu_0
    from tdgl.em import biot_savart_2d, current_loop_vector_potential

    from . import units as U

    u = args.get("u", [-6, -3, -6])
    ln, fu, cu = U.unit_names(u)
    LU, FUv = 10.0 ** u[0], 10.0 ** u[1]
    dev = U.twin_device(tdgl, args.get("dev", "barhole"), u)
    nums = U.numbers(u)
    work = tempfile.mkdtemp(prefix="fields", dir=tmp)
    dt = 2.0 ** -6
    opt = tdgl.SolverOptions(solve_time=12 * dt, dt_init=dt, adaptive=False, save_every=4, progress_interval=10 ** 9, pause_on_interrupt=False,
                             output_file=os.path.join(work, "o.h5"), field_units=fu, current_units=cu)
    cur = 2.0 * nums["I"]
    sol = tdgl.solve(dev, opt, applied_vector_potential=2.0 * nums["B"], terminal_currents={"source": cur, "drain": -cur})
    B_phys = 2.0 * U.PHYS["B"]
    tag = f"[{ln},{fu},{cu}] "
    rel = []

    def add(name, what, x, y, scale=None):
        try:        # x, y may be thunks: a call of the real code that raises where the model has a value is recorded as a failed relation
            x = x() if callable(x) else x
            y = y() if callable(y) else y
        except Exception as e:
            rel.append({"name": name, "what": f"{tag}{what}: the real code raised {type(e).__name__}: {e}"[:300], "a": [0.0], "b": [1.0], "scale": 1.0})
            return
        rel.append({"name": name, "what": tag + what, "a": np.asarray(x, dtype=float).reshape(-1).tolist(), "b": np.asarray(y, dtype=float).reshape(-1).tolist(),
                    "scale": None if scale is None else float(scale)})

    pos = np.array(U.FIELD_POINTS_UM) * (1e-6 / LU)          # in length_units
    ev_m = pos * LU
    m = lambda q: np.asarray(q.magnitude if hasattr(q, "magnitude") else q)
    # ---- field_at_position (default units: field_units)
    tot_z = m(sol.field_at_position(pos, vector=False))
    parts_z = sol.field_at_position(pos, vector=False, return_sum=False)
    tot_v = m(sol.field_at_position(pos, vector=True))
    parts_v = sol.field_at_position(pos, vector=True, return_sum=False)
    add("TotalIsSumOfParts", "field_at_position z: total vs supercurrent + normal", tot_z, m(parts_z.supercurrent) + m(parts_z.normal_current))
    add("TotalIsSumOfParts", "field_at_position vector: total vs supercurrent + normal", tot_v, m(parts_v.supercurrent) + m(parts_v.normal_current))
    add("ScalarEqualsVectorZ", "field_at_position: vector[:, 2] vs scalar", tot_v[:, 2], tot_z)
    add("ScalarEqualsVectorZ", "field_at_position parts: vector[:, 2] vs scalar", m(parts_v.supercurrent)[:, 2], m(parts_z.supercurrent))
    # direct SI sum with the harness' reference (checked against TLC on the exact instances)
    xi = dev.coherence_length.to("m").magnitude
    pts = np.concatenate([dev.mesh.sites * xi, np.zeros((len(dev.mesh.sites), 1))], axis=1)
    ar = dev.mesh.areas * xi ** 2
    Js = sol.supercurrent_density.to("A / m").magnitude
    Jn = sol.normal_current_density.to("A / m").magnitude
    add("MatchesDirectSum", "field_at_position (to tesla) vs direct Biot-Savart sum in SI", tot_v * FUv, ref_biot_savart(np, ev_m, pts, Js + Jn, ar))
    add("MatchesDirectSum", "supercurrent part vs direct sum", m(parts_v.supercurrent) * FUv, ref_biot_savart(np, ev_m, pts, Js, ar))
    add("MatchesDirectSum", "normal-current part (scalar) vs direct sum", m(parts_z.normal_current) * FUv, ref_biot_savart(np, ev_m, pts, Jn, ar)[:, 2])
    add("HBConsistent", "field_at_position units A/m vs tesla / mu0", lambda: m(sol.field_at_position(pos, vector=True, units="A/m")), tot_v * FUv / mu_0)
    add("HBConsistent", "field_at_position units uA/um vs tesla / mu0", lambda: m(sol.field_at_position(pos, vector=False, units="uA/um")), tot_z * FUv / mu_0)
    # non-default `units=`: same physical value, and with_units=False returns the magnitude of with_units=True (total and per part)
    for un, si in (("uT", 1e-6), ("T", 1.0), ("mT", 1e-3)):
        for vec in (False, True):
            ref_val = (tot_v if vec else tot_z) * FUv
            add("UnitChoice", f"field_at_position(vector={vec}, units={un}) vs default units", lambda: m(sol.field_at_position(pos, vector=vec, units=un)) * si, ref_val)
            add("UnitChoice", f"field_at_position(vector={vec}, units={un}): with_units=False vs magnitude of with_units=True",
                lambda: np.asarray(sol.field_at_position(pos, vector=vec, units=un, with_units=False)), lambda: m(sol.field_at_position(pos, vector=vec, units=un)))
        add("UnitChoice", f"field_at_position parts(units={un}): with_units=False vs True",
            lambda: np.concatenate([np.asarray(x) for x in sol.field_at_position(pos, vector=True, units=un, with_units=False, return_sum=False)]),
            lambda: np.concatenate([m(x) for x in sol.field_at_position(pos, vector=True, units=un, return_sum=False)]))
    # linearity of the real kernels on the solution's currents (the device's own units)
    J_s = sol.supercurrent_density.to(f"{cu} / {ln}").magnitude
    J_n = sol.normal_current_density.to(f"{cu} / {ln}").magnitude
    w = dev.mesh.areas * dev.coherence_length.magnitude ** 2
    for vec in (False, True):
        f = lambda J: m(biot_savart_2d(pos[:, 0], pos[:, 1], pos[:, 2], positions=dev.points, current_densities=J, z0=0.0, areas=w,
                                       length_units=ln, current_units=cu, vector=vec).to("T"))
        add("Linear", f"biot_savart_2d(vector={vec}): B(2 Js - 3 Jn) vs 2 B(Js) - 3 B(Jn)", f(2 * J_s - 3 * J_n), 2 * f(J_s) - 3 * f(J_n))
        add("Linear", f"biot_savart_2d(vector={vec}): B(-0.5 Js) vs -0.5 B(Js)", f(-0.5 * J_s), -0.5 * f(J_s))
        add("MatchesDirectSum", f"biot_savart_2d(vector={vec}) in device units vs field_at_position part", f(J_s), (m(parts_v.supercurrent) if vec else m(parts_z.supercurrent)) * FUv)
    # ---- vector_potential_at_position (default units: field_units * length_units)
    AU = FUv * LU
    A_tot = m(sol.vector_potential_at_position(pos))
    A_parts = sol.vector_potential_at_position(pos, return_sum=False)
    A_s, A_n, A_a = m(A_parts["supercurrent_density"]), m(A_parts["normal_current_density"]), m(A_parts["applied"])
    add("AppliedPlusInduced", "vector potential: total vs applied + supercurrent + normal", A_tot, A_a + A_s + A_n)
    cs, cn = ref_coulomb(np, ev_m, pts, Js, ar), ref_coulomb(np, ev_m, pts, Jn, ar)
    add("MatchesDirectSum", "vector potential of the supercurrent vs direct Coulomb sum in SI", A_s[:, :2] * AU, cs)
    add("MatchesDirectSum", "vector potential of the normal current vs direct Coulomb sum", A_n[:, :2] * AU, cn)
    # applied part: symmetric gauge of the uniform field (any constant shift allowed: compare differences between points)
    expect = 0.5 * B_phys * np.stack([-ev_m[:, 1], ev_m[:, 0]], axis=1)
    add("AppliedPlusInduced", "applied part vs B x r / 2 (differences between points)", (A_a[:, :2] - A_a[0, :2]) * AU, expect - expect[0])
    indep = expect + cs + cn
    add("AppliedPlusInduced", "total vs independently evaluated applied + Coulomb reference (differences between points)",
        (A_tot[:, :2] - A_tot[0, :2]) * AU, indep - indep[0])
    for un, si in (("uT * um", 1e-12), ("T * m", 1.0), ("mT * mm", 1e-6), ("uT * nm", 1e-15)):
        add("UnitChoice", f"vector_potential_at_position(units={un}) vs default units", lambda: m(sol.vector_potential_at_position(pos, units=un)) * si, A_tot * AU)
        add("UnitChoice", f"vector_potential_at_position(units={un}): with_units=False vs magnitude of with_units=True",
            lambda: np.asarray(sol.vector_potential_at_position(pos, units=un, with_units=False)), lambda: m(sol.vector_potential_at_position(pos, units=un)))
        for part in ("applied", "supercurrent_density", "normal_current_density"):
            add("UnitChoice", f"vector_potential_at_position(units={un}) part {part}: with_units=False vs True, and vs default units",
                lambda: np.concatenate([np.asarray(sol.vector_potential_at_position(pos, units=un, with_units=False, return_sum=False)[part]) * si,
                                        m(sol.vector_potential_at_position(pos, units=un, return_sum=False)[part]) * si]),
                np.concatenate([m(A_parts[part]) * AU, m(A_parts[part]) * AU]))
        add("AppliedPlusInduced", f"vector_potential_at_position(units={un}, with_units=False): total vs independent applied + Coulomb reference",
            lambda: (lambda t: (t[:, :2] - t[0, :2]) * si)(np.asarray(sol.vector_potential_at_position(pos, units=un, with_units=False))), indep - indep[0])
    if args.get("history", True):
        _history_and_forms(tdgl, sol, dev, add, np, LU, FUv, ev_ref=lambda e, J: ref_biot_savart(np, e, pts, J, ar), Jtot=Js + Jn)
    if not args.get("loop", True):
        return {"rel": rel, "nsites": len(dev.mesh.sites), "frames": len(sol.times), "u": u}
    # ---- current loop: relations only (the closed form vs quadrature comparison is NOT decided by the specification)
    lp = np.array([[0.7, 0.2, 0.5], [-1.2, 0.4, 1.5], [0.3, -2.0, -0.7], [2.5, 1.0, 0.2]])
    A1 = m(current_loop_vector_potential(lp, loop_center=(0.1, -0.2, 0.0), loop_radius=1.3, current=2.0))
    A2 = m(current_loop_vector_potential(lp, loop_center=(0.1, -0.2, 0.0), loop_radius=1.3, current=-5.0))
    add("LoopLinear", "loop potential: A(I = -5) vs -2.5 A(I = 2)", A2, -2.5 * A1)
    s = 3.0
    A3 = m(current_loop_vector_potential(lp * s, loop_center=(0.1 * s, -0.2 * s, 0.0), loop_radius=1.3 * s, current=2.0))
    add("LoopScaling", "loop potential: A(s r; s R) vs A(r; R)", A3, A1)
    A0 = m(current_loop_vector_potential(lp, loop_center=(0, 0, 0), loop_radius=1.3, current=2.0))
    rot = np.stack([-lp[:, 1], lp[:, 0], lp[:, 2]], axis=1)
    Ar = m(current_loop_vector_potential(rot, loop_center=(0, 0, 0), loop_radius=1.3, current=2.0))
    add("LoopSymmetry", "loop potential: rotating the point by 90 degrees rotates A", Ar[:, :2], np.stack([-A0[:, 1], A0[:, 0]], axis=1))
    mir = lp * np.array([1, 1, -1])
    add("LoopSymmetry", "loop potential: mirror z -> -z leaves A unchanged", m(current_loop_vector_potential(mir, loop_center=(0, 0, 0), loop_radius=1.3, current=2.0)), A0)
    add("LoopSymmetry", "loop potential is azimuthal: A . r_perp = 0, A_z = 0",
        np.concatenate([(A0[:, 0] * lp[:, 0] + A0[:, 1] * lp[:, 1]), A0[:, 2]]), np.zeros(2 * len(lp)), scale=np.abs(A0).max() * np.abs(lp).max())
    # ---- off-axis loops: translation covariance, symmetry about the LOOP axis, the CurrentLoop Parameter
    from tdgl.sources import CurrentLoop
    loopA = lambda P, c, R=1.3, I=2.0, **kw: m(current_loop_vector_potential(P, loop_center=c, loop_radius=R, current=I, **kw))
    for c in ([1.7, -0.9, 0.3], [-2.2, 0.0, 0.0], [0.0, 3.1, -0.4]):
        c = np.array(c)
        Ac = loopA(lp + c, tuple(c))
        add("LoopTranslation", f"loop potential: A(r + c; centre c = {c.tolist()}) vs A(r; centre 0)", Ac, A0)
        rel_xy = lp[:, :2]                     # (r - c) in the plane
        add("LoopSymmetry", f"off-axis loop (centre {c.tolist()}): A is tangential about the loop axis, A_z = 0",
            np.concatenate([Ac[:, 0] * rel_xy[:, 0] + Ac[:, 1] * rel_xy[:, 1], Ac[:, 2]]), np.zeros(2 * len(lp)), scale=np.abs(A0).max() * np.abs(lp).max())
        rho = np.hypot(rel_xy[:, 0], rel_xy[:, 1])
        on_x = np.stack([rho, np.zeros_like(rho), lp[:, 2]], axis=1) + c      # same (rho, z) about the loop axis
        add("LoopSymmetry", f"off-axis loop (centre {c.tolist()}): |A| depends only on (rho, z) about the loop axis",
            np.linalg.norm(Ac, axis=1), np.linalg.norm(loopA(on_x, tuple(c)), axis=1))
        add("LoopLinear", f"off-axis loop (centre {c.tolist()}): A(I = -5) vs -2.5 A(I = 2)", loopA(lp + c, tuple(c), I=-5.0), -2.5 * Ac)
        add("LoopScaling", f"off-axis loop (centre {c.tolist()}): A(s r; s R, s c) vs A(r; R, c)", loopA((lp + c) * 3.0, tuple(3.0 * c), R=3.9), Ac)
        add("LoopScaling", f"off-axis loop (centre {c.tolist()}): nm/mA statement of the same loop vs um/uA",
            loopA((lp + c) * 1e3, tuple(1e3 * c), R=1300.0, I=2e-3, length_units="nm", current_units="mA"), Ac)
        P = CurrentLoop(current=2.0, radius=1.3, center=tuple(c), current_units="uA", field_units="mT", length_units="um")
        q = lp + c
        add("LoopTranslation", f"CurrentLoop Parameter (centre {c.tolist()}) vs the loop function about the origin (mT um)",
            lambda: np.asarray(P(q[:, 0], q[:, 1], q[:, 2])), A0 * 1e3 * 1e6)
    return {"rel": rel, "nsites": len(dev.mesh.sites), "frames": len(sol.times), "u": u}


# ---------------------------------------------------------------------------------------------------------------------
# The closed-form loop potential against numerical quadrature (clause LoopMatchesQuadrature of spec/FieldKernels.tla).
#
#   A(r) = mu0 I / 4 pi  *  G(r),      G(r) = \oint dl' / |r - r'|      (dimensionless: a length over a length)
#
# The reference is the harness' own quadrature of G from the NUMBERS IT PASSED IN (points, centre, radius in the caller's
# length unit; the current through a literal SI prefix table; mu0/4pi literal).  Regimes: "on_axis" (rho = 0, G = 0 by
# symmetry), "near_axis" (rho / R = 10^rexp, rexp = -9 .. -3), "far_field" (|r - c| / R = 10^rexp >= 200), "generic".
MU0_OVER_4PI = 1e-7        # T m / A.  Literal (exact before 2019; CODATA 2018 / 2022 differ from it by 5.5e-10 / 1.3e-10 relative,
#                            four orders below the tolerance); deliberately not read from scipy or from the package.
LEN_SI = {"m": 1.0, "mm": 1e-3, "um": 1e-6, "nm": 1e-9}
CUR_SI = {"A": 1.0, "mA": 1e-3, "uA": 1e-6, "nA": 1e-9}
LOOPQ_Q = 10 ** 9                    # values are quantised to 1e-9 of the point's scale ...
LOOPQ_SENTINEL = 1_100_000_000       # ... NaN / inf / beyond +-1.1 scale is clipped here (|a - b| stays below 2^31 for TLC)
LOOPQ_RHO_MIN = 1e-8                 # see loop_scale
LOOP_REGIMES = ("on_axis", "near_axis", "far_field", "generic")
# loops of the family: radius R, centre c (caller's length unit), current I (caller's current unit), the unit names
LOOP_FAMILY = [
    dict(tag="R=1 at the origin [um,uA]", R=1.0, c=[0.0, 0.0, 0.0], I=1.0, ln="um", cu="uA"),
    dict(tag="R=1.3 centre (1.7,-0.9,0.3) [um,uA]", R=1.3, c=[1.7, -0.9, 0.3], I=2.0, ln="um", cu="uA"),
    dict(tag="R=350 centre (-420,130,60) I<0 [nm,mA]", R=350.0, c=[-420.0, 130.0, 60.0], I=-2.5e-3, ln="nm", cu="mA"),
    dict(tag="R=0.02 centre (0.01,0.03,-0.5) [mm,A]", R=0.02, c=[0.01, 0.03, -0.5], I=0.125, ln="mm", cu="A"),
]
LOOP_FAMILY_THOROUGH = [
    dict(tag="R=7.5 centre (0,-3,0) [um,mA]", R=7.5, c=[0.0, -3.0, 0.0], I=-0.4, ln="um", cu="mA"),
    dict(tag="R=0.05 centre (2.5,2.5,1) [um,nA]", R=0.05, c=[2.5, 2.5, 1.0], I=30.0, ln="um", cu="nA"),
]


def ref_loop_G(np, d, R, n=2048):
    """G = \\oint dl'/|r - r'| of a loop of radius R about the z axis through the origin, at the points d (k, 3) (same length
    unit as R) -> (k, 3).  Midpoint rule in the source angle (periodic analytic integrand: geometric convergence away from the
    wire), evaluated WITHOUT the cancellation that the plain sum suffers near the axis: with D = rho^2 + R^2 + z^2 and
    e = 2 R rho cos(phi),  1/sqrt(D - e) = 1/sqrt(D) + e / (sqrt(D) sqrt(D - e) (sqrt(D) + sqrt(D - e))), and the first term
    integrates to zero against cos(phi) exactly; what is left is a sum of non-negative terms:
        (Gx, Gy) = 2 R^2 (-y, x) \\int_0^{2 pi} cos^2(phi) / (sqrt(D) sqrt(D - e) (sqrt(D) + sqrt(D - e))) dphi,   Gz = 0.
    Exactly zero on the axis.  No tdgl code."""
    d = np.asarray(d, dtype=float).reshape(-1, 3)
    phi = (np.arange(n) + 0.5) * (2 * np.pi / n)
    cph = np.cos(phi)
    out = np.zeros_like(d)
    for i, (x, y, z) in enumerate(d):
        rho = math.hypot(x, y)
        D = rho * rho + R * R + z * z
        sD = math.sqrt(D)
        sDe = np.sqrt(D - 2 * R * rho * cph)
        J = float(np.sum(cph * cph / (sD * sDe * (sD + sDe)))) * (2 * np.pi / n)
        out[i, 0] = -2 * R * R * J * y
        out[i, 1] = 2 * R * R * J * x
    return out


def ref_loop_G_plain(np, d, R, n=2048):
    """The same integral as the plain Cartesian sum  sum_j dl_j / |r - r'_j|  (loses ~1e-16 / (rho/R) relative near the axis;
    used only to cross-check ref_loop_G where both are accurate)."""
    d = np.asarray(d, dtype=float).reshape(-1, 3)
    phi = (np.arange(n) + 0.5) * (2 * np.pi / n)
    src = np.stack([R * np.cos(phi), R * np.sin(phi), np.zeros(n)], axis=1)
    dl = np.stack([-R * np.sin(phi), R * np.cos(phi), np.zeros(n)], axis=1) * (2 * np.pi / n)
    out = np.zeros_like(d)
    for i, p in enumerate(d):
        out[i] = (dl / np.linalg.norm(p[None, :] - src, axis=1)[:, None]).sum(axis=0)
    return out


def loop_scale(np, d, P, c, R, G):
    """The scale against which a point is compared (tolerance = 1e-6 of it): the size of the reference value itself, but not
    less than the potential ONE HUNDRED-MILLIONTH of the coordinates' magnitude away from the axis,
        floor = pi R^2 rho_min / (R^2 + |d|^2)^(3/2),   rho_min = 1e-8 (|P|_inf + |c|_inf + R)
    (pi R^2 rho / (R^2 + |d|^2)^(3/2) is the leading behaviour of |G| both near the axis and in the far field; it is the
    absolute floor, in units of the loop's characteristic potential mu0 I / 4 pi, that the vanishing of A on the axis makes
    necessary).  Reason: the points and the centre are floating-point numbers in the caller's unit; converting them to metres
    and subtracting the centre moves the point by a few ulp (1e-16) of those magnitudes, so nobody can know rho better than
    that; the floor tolerates 1e-6 * rho_min = 1e-14 of the magnitudes (~ 50 ulp) and nothing more."""
    mag = np.abs(P).max(axis=1) + np.abs(np.asarray(c)).max() + R
    floor = np.pi * R * R * LOOPQ_RHO_MIN * mag / (R * R + np.sum(d * d, axis=1)) ** 1.5
    return np.maximum(np.abs(G).max(axis=1), floor)


def _loop_points(np, regime, rexp, R, dense):
    """Points RELATIVE to the loop centre (caller's length unit) of one regime.  Every point is >= 0.2 R from the wire."""
    heights = [0.0, 0.25, 1.0, -3.0, 40.0] + ([0.01, -0.5, 2.0, 10.0, -100.0, 1000.0] if dense else [])         # z / R
    az = [0.0, 2.1, -0.5 * math.pi] + ([0.5 * math.pi, math.pi, 0.3, -2.7, 4.0] if dense else [])
    unit = lambda a: (0.0, -1.0) if a == -0.5 * math.pi else (0.0, 1.0) if a == 0.5 * math.pi else (-1.0, 0.0) if a == math.pi else (math.cos(a), math.sin(a))
    pts = []
    if regime == "on_axis":                       # includes the loop centre (z = 0)
        pts = [[0.0, 0.0, h * R] for h in heights]
    elif regime == "near_axis":
        for mant in ([1.0, 3.0] if dense else [1.0]):
            rho = mant * 10.0 ** rexp * R
            pts += [[rho * unit(a)[0], rho * unit(a)[1], h * R] for h in heights for a in az]
    elif regime == "far_field":
        dist = 10.0 ** rexp * R * (2.0 if rexp == 2 else 1.0)             # 200 R, 1e3 R, 1e4 R, ...
        for th in [0.3, 0.5 * math.pi, 2.5, 1e-3] + ([1.0, 3.0, 1e-5] if dense else []):       # polar angle from the loop axis
            for a in az[:2]:
                pts.append([dist * math.sin(th) * unit(a)[0], dist * math.sin(th) * unit(a)[1], dist * math.cos(th) if th != 0.5 * math.pi else 0.0])
    else:
        for rr in [0.3, 0.7, 1.6, 4.0] + ([0.05, 1.25, 12.0] if dense else []):
            for h in [0.25, -1.0, 3.0] + ([0.0, 0.6] if dense else []):
                if math.hypot(rr - 1.0, h) >= 0.2:
                    pts += [[rr * R * unit(a)[0], rr * R * unit(a)[1], h * R] for a in az[:2]]
    return np.array(pts, dtype=float)


def loop_quadrature(tdgl, args, tmp):
    """Evaluate the REAL closed form (em.current_loop_vector_potential, and the sources.CurrentLoop Parameter on two loops)
    on the family  loops x regimes  and quantise it and the harness' quadrature point by point.
    -> {"groups": [{"regime", "rexp", "events": [event + meta]}], "selfcheck": ...}; one group becomes one trace."""
    import warnings

    import numpy as np
    from tdgl.em import current_loop_vector_potential
    from tdgl.sources import CurrentLoop

    dense = bool(args.get("dense", False))
    loops = LOOP_FAMILY + (LOOP_FAMILY_THOROUGH if dense else [])
    regimes = [("on_axis", 0)] + [("near_axis", k) for k in range(-12 if dense else -9, -2)] + [("generic", 0)] + \
              [("far_field", k) for k in range(2, 8 if dense else 7)]
    # ---- the reference checks itself where both of its forms are accurate (a harness problem, never a verdict)
    gen = _loop_points(np, "generic", 0, 1.3, True)
    g1, g2, g3 = ref_loop_G(np, gen, 1.3), ref_loop_G_plain(np, gen, 1.3), ref_loop_G(np, gen, 1.3, n=4096)
    worst_self = float(max(np.abs(g1 - g2).max(), np.abs(g1 - g3).max()) / np.abs(g1).max())
    far = _loop_points(np, "far_field", 3, 1.3, False)
    dip = np.pi * 1.3 ** 2 * np.stack([-far[:, 1], far[:, 0], 0 * far[:, 0]], axis=1) / np.sum(far * far, axis=1)[:, None] ** 1.5     # the dipole limit
    worst_dip = float(np.abs(ref_loop_G(np, far, 1.3) - dip).max() / np.abs(dip).max())
    if not (worst_self < 1e-12 and worst_dip < 1e-5 and np.all(ref_loop_G(np, [[0, 0, 0.4], [0, 0, 0]], 1.3) == 0)):
        raise RuntimeError(f"harness: the loop quadrature disagrees with itself (two forms / refinement {worst_self:.2e}, dipole limit {worst_dip:.2e})")
    groups = []
    for regime, rexp in regimes:
        events = []
        for li, L in enumerate(loops):
            R, c, I = L["R"], np.array(L["c"], dtype=float), L["I"]
            d0 = _loop_points(np, regime, rexp, R, dense)
            P = d0 + c                                   # the numbers that are passed in
            d = P - c                                    # what the package is told, relative to the centre it is told
            G = ref_loop_G(np, d, R) * (1.0 if I > 0 else -1.0)
            scale = loop_scale(np, d, P, c, R, G)
            amp = MU0_OVER_4PI * abs(I) * CUR_SI[L["cu"]]           # mu0 |I| / 4 pi in T m
            apis = ["function"] + (["CurrentLoop"] if li in (1, 2) and (regime != "near_axis" or rexp in (-9, -6, -3)) else [])
            for api in apis:
                raised = None
                with warnings.catch_warnings():
                    warnings.simplefilter("ignore")
                    try:
                        if api == "function":
                            A = current_loop_vector_potential(P, loop_center=tuple(L["c"]), loop_radius=R, current=I, length_units=L["ln"], current_units=L["cu"])
                            A = np.asarray(A.to("T * m").magnitude, dtype=float).reshape(-1, 3)
                        else:
                            prm = CurrentLoop(current=I, radius=R, center=tuple(L["c"]), current_units=L["cu"], field_units="mT", length_units=L["ln"])
                            A = np.asarray(prm(P[:, 0], P[:, 1], P[:, 2]), dtype=float).reshape(-1, 3) * 1e-3 * LEN_SI[L["ln"]]
                        if A.shape != G.shape:
                            raise ValueError(f"returned shape {A.shape} for {G.shape[0]} points")
                    except Exception as e:            # valid input: a refusal is an observation that no action accepts
                        raised = f"{type(e).__name__}: {e}"[:200]
                        A = np.full(G.shape, np.nan)
                Gp = A / amp
                bad = ~np.isfinite(Gp)
                qa = np.where(bad, float(LOOPQ_SENTINEL), np.clip(np.round(np.where(bad, 0.0, Gp) / scale[:, None] * LOOPQ_Q), -LOOPQ_SENTINEL, LOOPQ_SENTINEL))
                qb = np.round(G / scale[:, None] * LOOPQ_Q)
                dev = np.where(bad, np.inf, np.abs(np.where(bad, 0.0, Gp) - G) / scale[:, None]).max(axis=1)
                w = int(np.argmax(dev))
                events.append({"ev": "loopq", "regime": regime, "rexp": int(rexp), "nonfinite": int(bad.sum()),
                               "a": [int(v) for v in qa.reshape(-1)], "b": [int(v) for v in qb.reshape(-1)],
                               "meta": {"loop": L["tag"], "api": api, "points": int(len(P)), "raised": raised,
                                        "nonfinite_points": [P[i].tolist() for i in np.nonzero(bad.any(axis=1))[0][:3]],
                                        "worst": {"point": P[w].tolist(), "rho_over_R": float(math.hypot(d[w, 0], d[w, 1]) / R), "z_over_R": float(d[w, 2] / R),
                                                  "package_T_m": A[w].tolist(), "quadrature_T_m": (G[w] * amp).tolist(),
                                                  "deviation_over_scale": float(dev[w]), "scale_over_mu0I_4pi": float(scale[w])}}})
        groups.append({"regime": regime, "rexp": int(rexp), "events": events})
    return {"groups": groups, "selfcheck": {"two_forms_and_refinement": worst_self, "dipole_limit": worst_dip}}


def time_dependent_relations(tdgl, args, tmp):
    """A device solved with a time-dependent applied potential (ConstantField * LinearRamp) and save_every = k: at several solve
    steps the applied part of vector_potential_at_position must be the Parameter evaluated at THAT frame's recorded time."""
    import h5py
    import numpy as np
    from tdgl.sources import ConstantField, LinearRamp

    from . import devices

    k = args["k"]
    dev = devices.make(tdgl, "film", mel=0.9)
    work = tempfile.mkdtemp(prefix="tdep", dir=tmp)
    dt, nsteps, B, T = 2.0 ** -6, args.get("steps", 50), 0.6, 0.5
    A = ConstantField(B, field_units="mT", length_units="um") * LinearRamp(tmin=0.0, tmax=T)
    opt = tdgl.SolverOptions(solve_time=nsteps * dt - dt / 2, dt_init=dt, adaptive=False, save_every=k, progress_interval=10 ** 9, pause_on_interrupt=False,
                             output_file=os.path.join(work, f"k{k}.h5"), field_units="mT", current_units="uA")
    sol = tdgl.solve(dev, opt, applied_vector_potential=A)
    with h5py.File(sol.path, "r") as f:
        times = {int(n): float(f["data"][n].attrs["time"]) for n in f["data"]}
        steps = {int(n): int(f["data"][n].attrs["step"]) for n in f["data"]}
    rel = []
    pos = np.array([[0.3, 0.2, 0.5], [-1.0, 0.7, 1.0], [2.0, -1.0, 0.4], [4.0, 3.0, 2.0]])
    m = lambda q: np.asarray(q.magnitude if hasattr(q, "magnitude") else q)
    frames = sorted(times)
    for n in sorted({frames[0], frames[1], frames[len(frames) // 2], frames[-2], frames[-1]}):
        tag = f"[save_every={k}] frame {n} (solver step {steps[n]}, time {times[n]:.6g}): "
        try:
            sol.solve_step = n
            parts = sol.vector_potential_at_position(pos, return_sum=False)
            tot = m(sol.vector_potential_at_position(pos))
            ap = m(parts["applied"])
            at_frame_time = np.asarray(sol.applied_vector_potential(pos[:, 0], pos[:, 1], pos[:, 2], t=times[n]))
            ramp = min(1.0, max(0.0, times[n] / T))
            closed = 0.5 * B * ramp * np.stack([-pos[:, 1], pos[:, 0]], axis=1)
            sc = 0.5 * B * np.abs(pos[:, :2]).max()
            rel.append({"name": "AppliedAtFrameTime", "what": tag + "applied part vs the applied Parameter evaluated at the frame's recorded time",
                        "a": ap[:, :2].reshape(-1).tolist(), "b": np.asarray(at_frame_time, dtype=float)[:, :2].reshape(-1).tolist(), "scale": sc})
            rel.append({"name": "AppliedAtFrameTime", "what": tag + "applied part vs B ramp(t_frame) x r / 2 (differences between points)",
                        "a": (ap[:, :2] - ap[0, :2]).reshape(-1).tolist(), "b": (closed - closed[0]).reshape(-1).tolist(), "scale": sc})
            rel.append({"name": "AppliedPlusInduced", "what": tag + "total vs applied + supercurrent + normal",
                        "a": tot.reshape(-1).tolist(), "b": (ap + m(parts["supercurrent_density"]) + m(parts["normal_current_density"])).reshape(-1).tolist(), "scale": sc})
            rel.append({"name": "AppliedAtFrameTime", "what": tag + "Solution.times[frame] vs the time recorded with the frame",
                        "a": [float(sol.times[n])], "b": [times[n]], "scale": T})
        except Exception as e:
            rel.append({"name": "AppliedAtFrameTime", "what": tag + f"the real code raised {type(e).__name__}: {e}"[:200], "a": [0.0], "b": [1.0], "scale": 1.0})
    return {"rel": rel, "nsites": len(dev.mesh.sites), "frames": len(frames), "u": f"save_every={k}"}


def z0_relations(tdgl, args, tmp):
    """A film whose layer sits at z0 != 0 (the harness passes z0 to Layer): the field and the potential of the solution the solver
    returns AND of the solution loaded back with Solution.from_hdf5 must be those of sheet currents at z = z0 (direct SI sums)."""
    import numpy as np
    from tdgl.geometry import box

    z0 = args.get("z0", 0.7)
    layer = tdgl.Layer(coherence_length=0.8, london_lambda=1.6, thickness=0.1, gamma=10.0, z0=z0)
    dev = tdgl.Device("film_z0", layer=layer, film=tdgl.Polygon("film", points=box(5.0, 3.0, points=40)), length_units="um")
    dev.make_mesh(max_edge_length=0.9, smooth=0)
    work = tempfile.mkdtemp(prefix="z0", dir=tmp)
    dt = 2.0 ** -6
    opt = tdgl.SolverOptions(solve_time=10 * dt - dt / 2, dt_init=dt, adaptive=False, save_every=5, progress_interval=10 ** 9, pause_on_interrupt=False,
                             output_file=os.path.join(work, "z0.h5"), field_units="mT", current_units="uA")
    sol = tdgl.solve(dev, opt, applied_vector_potential=0.9)
    loaded = tdgl.Solution.from_hdf5(sol.path)
    m = lambda q: np.asarray(q.magnitude if hasattr(q, "magnitude") else q)
    pos = np.array([[0.3, 0.2, 1.3], [-1.0, 0.7, 0.2], [2.0, -1.0, -0.4], [4.0, 3.0, 2.0], [0.2, 0.1, 0.0]])      # z relative to the lab, not to the film
    xi = 0.8e-6
    pts = np.concatenate([dev.mesh.sites * xi, z0 * 1e-6 * np.ones((len(dev.mesh.sites), 1))], axis=1)             # the sheet lies at z = z0
    ar = dev.mesh.areas * xi ** 2
    ev_m = pos * 1e-6
    rel = []
    for who, S in (("returned by solve", sol), ("loaded with Solution.from_hdf5", loaded)):
        tag = f"[layer z0 = {z0} um, solution {who}] "
        try:
            Js = S.supercurrent_density.to("A / m").magnitude
            Jn = S.normal_current_density.to("A / m").magnitude
            bv = m(S.field_at_position(pos, vector=True)) * 1e-3
            bz = m(S.field_at_position(pos[:, :2], zs=pos[:, 2], vector=False)) * 1e-3
            ref = ref_biot_savart(np, ev_m, pts, Js + Jn, ar)
            A = S.vector_potential_at_position(pos, return_sum=False)
            rel.append({"name": "MatchesDirectSum", "what": tag + "field_at_position(vector) vs direct Biot-Savart sum of a sheet at z0", "a": bv.reshape(-1).tolist(), "b": ref.reshape(-1).tolist(), "scale": None})
            rel.append({"name": "MatchesDirectSum", "what": tag + "field_at_position(scalar, zs=) vs direct sum", "a": bz.reshape(-1).tolist(), "b": ref[:, 2].reshape(-1).tolist(), "scale": None})
            rel.append({"name": "MatchesDirectSum", "what": tag + "vector potential of the supercurrent vs direct Coulomb sum of a sheet at z0",
                        "a": (m(A["supercurrent_density"])[:, :2] * 1e-9).reshape(-1).tolist(), "b": ref_coulomb(np, ev_m, pts, Js, ar).reshape(-1).tolist(), "scale": None})
            rel.append({"name": "MatchesDirectSum", "what": tag + "layer.z0 of the solution's device vs the z0 the harness passed", "a": [float(S.device.layer.z0)], "b": [z0], "scale": 1.0})
        except Exception as e:
            rel.append({"name": "MatchesDirectSum", "what": tag + f"the real code raised {type(e).__name__}: {e}"[:250], "a": [0.0], "b": [1.0], "scale": 1.0})
    return {"rel": rel, "nsites": len(dev.mesh.sites), "frames": len(sol.times), "u": f"z0={z0}"}
