#!/bin/sh
# dev helper: tlcdev.sh <module> <cfg> [extra tlc args] — runs TLC in a scratch dir with -difftrace
d=$(mktemp -d /tmp/tlcdev.XXXX)
cp /verif/spec/*.tla "$d"/
cp "$2" "$d"/run.cfg
m=$1; shift; shift
(cd "$d" && timeout 900 tlc -workers 16 -config run.cfg -metadir "$d/m" -noGenerateSpecTE -difftrace "$@" "$m" 2>&1)
rm -rf "$d"
