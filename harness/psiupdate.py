"""Binding of spec/PsiUpdate.tla to the real TDGLSolver.solve_for_psi_squared (C02).

spec -> code: a grid point (z, w) of the specification is turned into inputs of the real
static method by INVERTING THE DOCUMENTED FORMULAS (docs/background.rst, eqs. z, w):
    z = gamma^2/2 exp(-i mu dt) psi
    w = z |psi|^2 + exp(-i mu dt) [psi + dt/u sqrt(1 + gamma^2 |psi|^2) ((eps - |psi|^2) psi + (L psi))]
psi is obtained from z, the Laplacian action (L psi)_i (a diagonal entry, or a coupling to an
auxiliary site holding psi = 1) from w.  An error in the code's own z / w therefore shows up
as a root of a different equation.
code -> spec: the answer (refused?, psi', |psi'|^2) is abstracted per site into integer
residuals of the documented equation (exact rational arithmetic on the returned floats) and
handed to TLC (spec/PsiUpdateTrace.tla), which decides.
"""
from __future__ import annotations

import cmath
import math
import random
import re
from decimal import Decimal, getcontext
from fractions import Fraction as F

import numpy as np

getcontext().prec = 60

QUANTUM = 1e-12        # residual quantum (relative to the magnitude of the terms of the equation)
TOL = 1000             # accepted residual in quanta (1e-9)
SSCALE = 10 ** 4       # |psi'|^2 is reported as round(s * SSCALE) for the comparison with the exact root
STOL = 2
CAP = 10 ** 9
DEN = 4


# ---------------------------------------------------------------- exact complex rationals

class C:
    """complex number with Fraction parts"""
    __slots__ = ("re", "im")

    def __init__(self, re=0, im=0):
        self.re = F(re)
        self.im = F(im)

    @staticmethod
    def of(x):
        if isinstance(x, C):
            return x
        x = complex(x)
        return C(F(x.real), F(x.imag))

    def __add__(self, o):
        o = C.of(o) if not isinstance(o, C) else o
        return C(self.re + o.re, self.im + o.im)

    def __sub__(self, o):
        o = C.of(o) if not isinstance(o, C) else o
        return C(self.re - o.re, self.im - o.im)

    def __mul__(self, o):
        if isinstance(o, F):
            return C(self.re * o, self.im * o)
        o = C.of(o) if not isinstance(o, C) else o
        return C(self.re * o.re - self.im * o.im, self.re * o.im + self.im * o.re)

    def abs2(self):
        return self.re * self.re + self.im * self.im

    def mag(self):
        """|.| as a Decimal (unbounded exponent range: no underflow for |psi| ~ 1e-300)"""
        return dec(self.abs2()).sqrt()


def dec(x) -> Decimal:
    if isinstance(x, F):
        return Decimal(x.numerator) / Decimal(x.denominator)
    if isinstance(x, float):
        return Decimal(x)
    return Decimal(x)


MIN_NORMAL = Decimal(2.2250738585072014e-308)


def quanta(d: Decimal, scale: Decimal) -> int:
    """d / (QUANTUM * scale) rounded to an integer, capped"""
    if d < MIN_NORMAL:       # below the smallest normal double: not resolvable in floating point
        return 0
    if scale == 0:
        return CAP
    q = d / (Decimal(QUANTUM) * scale)
    return CAP if q >= CAP else int(q.to_integral_value())


def fsqrt(x: F) -> float:
    """float square root of a non-negative Fraction without overflow/underflow surprises"""
    if x <= 0:
        return 0.0
    d = (Decimal(x.numerator) / Decimal(x.denominator)).sqrt()
    try:
        return float(d)
    except OverflowError:
        return math.inf


def sqrt_frac(x: F) -> F:
    """sqrt of a positive Fraction to ~55 digits, as a Fraction"""
    d = (Decimal(x.numerator) / Decimal(x.denominator)).sqrt()
    return F(d)


def ffloat(x: F) -> float:
    try:
        return float(x)
    except OverflowError:
        return math.inf


# ---------------------------------------------------------------- vectors from TLC

_V = re.compile(r'<<"V", (-?\d+), (-?\d+), (-?\d+), (-?\d+), "(\w+)", (-?\d+), (-?\d+), (-?\d+)>>')


def parse_vectors(tlc_result):
    """grid points emitted by PsiUpdate.Emitted -> list of dicts"""
    out = []
    for line in tlc_result.printed():
        m = _V.match(line)
        if m:
            zr, zi, wr, wi, cls, n1, dn, r = m.groups()
            out.append(dict(zr=int(zr), zi=int(zi), wr=int(wr), wi=int(wi), cls=cls, n1=int(n1), dn=int(dn), r=int(r)))
    return out


MU_PHASES = [0.0, math.pi / 2, math.pi, 3 * math.pi / 2, 0.7, -2.3]
GAMMAS = [1.0, 2.0, 10.0, 0.5]
PSI_FREE = [0j, 1 + 0j, 0.3 - 0.4j, 1.5 + 0.5j, -2.0 + 0j, 1e-3j]     # psi for gamma = 0 sites (z = 0 whatever psi is)


def plan_vectors(points, seed, quick):
    """Group grid points into multi-site calls mixing classes.  Returns list of vector plans:
    dict(gamma, u, dt, sites=[dict(point..., q, eps, lap, psi0)], expect) ."""
    rnd = random.Random(seed)
    by = {}
    for p in points:
        by.setdefault(p["cls"], []).append(p)
    for v in by.values():
        rnd.shuffle(v)
    solv = [p for p in points if p["cls"] in ("two", "w0", "z0")]
    two = by.get("two", [])
    none = by.get("none", [])
    if quick:
        # boundary first: smallest |D| on either side, then a seeded sample
        two_sel = sorted(two, key=lambda p: p["dn"])[:250] + two[:650]
        none_sel = sorted(none, key=lambda p: -p["dn"])[:250] + none[:500]
        rational = [p for p in two if p["r"] >= 0][:200]
        two_sel += rational
    else:
        two_sel, none_sel = list(two), list(none)
    plans = []

    def params():
        return dict(gamma=rnd.choice(GAMMAS), u=rnd.choice([1.0, 5.79]), dt=2.0 ** rnd.randint(-10, 3))

    def site(p, gamma):
        lap = "aux" if (p["zr"] == 0 and p["zi"] == 0 and gamma > 0) else rnd.choice(["diag", "aux"])
        return dict(p, q=rnd.randrange(len(MU_PHASES)), eps=rnd.choice([-1.0, 0.0, 0.5, 1.0]), lap=lap,
                    psi0=rnd.randrange(len(PSI_FREE)))

    # (A) all sites solvable: must be answered, every site must satisfy Accept
    pool = two_sel + by.get("w0", []) + by.get("z0", [])
    rnd.shuffle(pool)
    n = 0
    while n < len(pool):
        k = rnd.randint(3, 9)
        pr = params()
        plans.append(dict(pr, sites=[site(p, pr["gamma"]) for p in pool[n:n + k]], family="solvable"))
        n += k
    # (B) exactly one site without solution among solvable ones: must be refused
    for p in none_sel:
        k = rnd.randint(0, 5)
        pr = params()
        ss = [site(x, pr["gamma"]) for x in rnd.sample(solv, k)] + [site(p, pr["gamma"])]
        rnd.shuffle(ss)
        plans.append(dict(pr, sites=ss, family="one-unsolvable"))
    # (C) tangent sites (double root): realised to rounding only -> verdict free, Accept if answered
    for p in by.get("tangent", []):
        pr = params()
        ss = [site(x, pr["gamma"]) for x in rnd.sample(solv, rnd.randint(0, 3))] + [site(p, pr["gamma"])]
        plans.append(dict(pr, sites=ss, family="tangent"))
    # (D) gamma = 0: every site has z = 0 whatever psi is (includes psi = 0 and |psi| > 1)
    z0 = list(by.get("z0", []))
    for rep in range(1 if quick else 4):
        rnd.shuffle(z0)
        for n in range(0, len(z0), 7):
            pr = dict(params(), gamma=0.0)
            plans.append(dict(pr, sites=[site(p, 0.0) for p in z0[n:n + 7]], family="gamma0"))
    return plans


# ---------------------------------------------------------------- concretisation


def realise_site(s, gamma, u, dt):
    """inputs (psi, mu, eps, lap entry) realising the grid point, by inverting the documented formulas"""
    z = complex(s["zr"], s["zi"]) / DEN
    w = complex(s["wr"], s["wi"]) / DEN * s.get("wscale", 1.0)
    mu = MU_PHASES[s["q"]] / dt
    U = cmath.exp(-1j * (mu * dt))
    g = gamma ** 2 / 2
    if gamma > 0:
        psi = z / (g * U)
    else:
        assert z == 0
        psi = PSI_FREE[s["psi0"]]
    a = abs(psi) ** 2
    S = math.sqrt(1 + gamma ** 2 * a)
    tau = dt / u
    eps = s["eps"]
    zreal = g * U * psi
    bracket = ((w - zreal * a) / U - psi) / (tau * S)
    ell = bracket - (eps - a) * psi          # required Laplacian action (L psi)_i
    lap = s["lap"]
    if lap == "diag" and psi == 0:
        lap = "aux"
    entry = ell / psi if lap == "diag" else ell
    return dict(psi=psi, mu=mu, eps=eps, lap=lap, entry=entry)


def documented_zw(psi, mu, eps, gamma, u, dt, lap_action):
    """z, w of docs/background.rst evaluated on the float inputs in exact rational arithmetic
    (exp(-i mu dt) taken from cmath: relative error 2e-16), and the magnitude M of the terms."""
    U = C.of(cmath.exp(-1j * (mu * dt)))
    g = F(gamma) ** 2 / 2
    P = C.of(psi)
    a = P.abs2()
    S = sqrt_frac(1 + F(gamma) ** 2 * a)
    tau = F(dt) / F(u)
    z = U * P * g
    L = C.of(lap_action) if not isinstance(lap_action, C) else lap_action
    inner = P * (F(eps) - a) + L
    w = z * a + U * (P + inner * (tau * S))
    M = z.mag() * dec(a) + P.mag() + dec(tau * S) * (abs(dec(F(eps) - a)) * P.mag() + L.mag())
    return z, w, M


def abstract_site(z: C, w: C, M: float, p, s):
    """(psi', |psi'|^2) returned by the code -> integer observation for PsiUpdateTrace"""
    fin = bool(np.isfinite(p.real) and np.isfinite(p.imag) and np.isfinite(np.real(s)) and np.imag(s) == 0 and np.real(s) >= 0)
    if not fin:
        return dict(e1=CAP, e2=CAP, br=False, fin=False, sq=-1)
    s = float(np.real(s))
    P, Sx = C.of(complex(p)), F(s)
    d1 = (P + z * Sx - w).mag()
    scale1 = M + z.mag() * dec(Sx) + P.mag() + w.mag()
    e1 = quanta(d1, scale1)
    p2 = P.abs2()
    d2 = abs(dec(Sx - p2))
    scale2 = max(dec(Sx), dec(p2)) + (M + w.mag()) * (P.mag() + w.mag())
    e2 = quanta(d2, scale2)
    c = z.re * w.re + z.im * w.im
    two_c_1 = 2 * c + 1
    br = bool(2 * z.abs2() * Sx - two_c_1 <= F(TOL * QUANTUM) * max(F(1), abs(two_c_1)))
    sq = int(round(s * SSCALE)) if s <= 100 else -1        # exact roots on the grid are <= 72
    return dict(e1=e1, e2=e2, br=br, fin=True, sq=sq)


def call_real(tdgl, psi, mu, eps, gamma, u, dt, L, werror=False):
    """werror: the call is made in a process state where warnings are errors (python -W error / pytest -W error /
    warnings.simplefilter("error")): the verdict and the answer must not depend on the warning filters."""
    import warnings

    import scipy.sparse as sp
    from tdgl.solver.solver import TDGLSolver

    psi = np.asarray(psi, dtype=np.complex128)
    kw = dict(psi=psi.copy(), abs_sq_psi=np.absolute(psi) ** 2, mu=np.asarray(mu, dtype=float), epsilon=np.asarray(eps, dtype=float),
              gamma=gamma, u=u, dt=dt, psi_laplacian=sp.csr_array(L))
    if not werror:
        with warnings.catch_warnings():
            warnings.simplefilter("default")
            return TDGLSolver.solve_for_psi_squared(**kw)
    with warnings.catch_warnings():
        warnings.simplefilter("error")
        return TDGLSolver.solve_for_psi_squared(**kw)


def run_plan(tdgl, plan):
    """Execute one planned grid vector on the real code -> trace for PsiUpdateTrace (+ diagnostics)."""
    gamma, u, dt = plan["gamma"], plan["u"], plan["dt"]
    n = len(plan["sites"])
    psi = np.zeros(n + 1, dtype=np.complex128)
    mu = np.zeros(n + 1)
    eps = np.ones(n + 1)
    L = np.zeros((n + 1, n + 1), dtype=np.complex128)
    psi[n] = 1.0          # auxiliary site: the uniform stationary state (always solvable, psi' = 1)
    reals = []
    for k, s in enumerate(plan["sites"]):
        r = realise_site(s, gamma, u, dt)
        reals.append(r)
        psi[k], mu[k], eps[k] = r["psi"], r["mu"], r["eps"]
        L[k, k if r["lap"] == "diag" else n] = r["entry"]
    res = call_real(tdgl, psi, mu, eps, gamma, u, dt, L, werror=plan.get("werror", False))
    ev = []
    worst_real = 0.0
    for k, s in enumerate(plan["sites"]):
        r = reals[k]
        action = complex(L[k, k] * psi[k]) if r["lap"] == "diag" else complex(L[k, n] * psi[n])
        zd, wd, M = documented_zw(psi[k], mu[k], eps[k], gamma, u, dt, action)
        zg, wg = C(F(s["zr"], DEN), F(s["zi"], DEN)), C(F(s["wr"], DEN), F(s["wi"], DEN))
        # self-check of the concretisation: the documented z, w of these inputs ARE the grid point
        err = float(((zd - zg).mag() + (wd - wg).mag()) / M) if M != 0 else 0.0
        worst_real = max(worst_real, err)
        kind = "free" if s["cls"] == "tangent" else "grid"
        o = dict(kind=kind, zr=s["zr"], zi=s["zi"], wr=s["wr"], wi=s["wi"], e1=0, e2=0, br=True, fin=True, sq=0, dpos=True)
        if res is not None:
            o.update(abstract_site(zg, wg, M, res[0][k], res[1][k]))
        ev.append(o)
    return dict(refused=res is None, ev=ev, family=plan["family"], realisation_error=worst_real,
                params=dict(gamma=gamma, u=u, dt=dt),
                answer=None if res is None else [[complex(a).real, complex(a).imag, float(np.real(b))] for a, b in zip(res[0][:n], res[1][:n])])


TINY = [1e-10, 1e-50, 1e-100, 1e-120, 1e-150, 1e-155, 1e-160, 1e-200, 1e-300, 5e-324, 0.0]


def tiny_plans(seed, quick):
    rnd = random.Random(seed + 17)
    plans = []
    for m in TINY:
        for gamma in ([10.0, 0.0] if quick else [10.0, 1.0, 2.0, 0.0]):
            for mode in (["zero", "diag"] if quick else ["zero", "diag", "aux"]):
                th = rnd.choice([0.0, 0.9, 2.5, -1.2])
                plans.append(dict(gamma=gamma, u=rnd.choice([1.0, 5.79]), dt=2.0 ** rnd.randint(-8, 0), m=m, theta=th, mode=mode,
                                  n_ord=rnd.randint(1, 3), n_tiny=rnd.randint(1, 3), zeros=rnd.randint(0, 2), family=f"tiny|psi|={m:g}", seed=rnd.randrange(10 ** 6)))
    # the same calls in a process state where warnings are errors: verdicts and answers must not depend on the warning filters
    plans += [dict(p, werror=True, family="tiny-W-error" + p["family"][4:]) for p in plans]
    return plans


def run_tiny(tdgl, plan, ordinary):
    """A vector mixing ordinary (grid, solvable) sites with sites of tiny |psi| and exact zeros.
    `ordinary` = solvable grid points (dicts as emitted by TLC) to draw from."""
    rnd = random.Random(plan.get("seed", 0))
    gamma, u, dt = plan["gamma"], plan["u"], plan["dt"]
    ords = []
    cands = [p for p in ordinary if (gamma > 0 or (p["zr"] == 0 and p["zi"] == 0))]
    for p in rnd.sample(cands, plan["n_ord"]):
        ords.append(dict(p, q=0, eps=1.0, lap="aux", psi0=1))
    n_t = plan["n_tiny"] + plan["zeros"]
    n = len(ords) + n_t
    psi = np.zeros(n + 1, dtype=np.complex128)
    mu = np.zeros(n + 1)
    eps = np.ones(n + 1)
    L = np.zeros((n + 1, n + 1), dtype=np.complex128)
    psi[n] = 1.0
    reals = []
    for k, s in enumerate(ords):
        r = realise_site(s, gamma, u, dt)
        reals.append(r)
        psi[k], mu[k], eps[k] = r["psi"], r["mu"], r["eps"]
        L[k, k if r["lap"] == "diag" else n] = r["entry"]
    for j in range(n_t):
        k = len(ords) + j
        m = plan["m"] if j < plan["n_tiny"] else 0.0
        psi[k] = m * cmath.exp(1j * (plan["theta"] + j))
        if m > 0 and psi[k] == 0:
            psi[k] = m
        eps[k] = [1.0, 0.0, -1.0][j % 3]
        if plan["mode"] == "diag":
            L[k, k] = -1.5 + 0.25j
        elif plan["mode"] == "aux":
            L[k, n] = m * (0.5 - 0.25j)
    res = call_real(tdgl, psi, mu, eps, gamma, u, dt, L, werror=plan.get("werror", False))
    ev = []
    for k in range(n):
        action = complex(sum(L[k, j] * psi[j] for j in (k, n)))
        zd, wd, M = documented_zw(psi[k], mu[k], eps[k], gamma, u, dt, action)
        if k < len(ords):
            s = ords[k]
            zq, wq = C(F(s["zr"], DEN), F(s["zi"], DEN)), C(F(s["wr"], DEN), F(s["wi"], DEN))
            o = dict(kind="grid", zr=s["zr"], zi=s["zi"], wr=s["wr"], wi=s["wi"], e1=0, e2=0, br=True, fin=True, sq=0, dpos=True)
        else:
            zq, wq = zd, wd
            small = zd.abs2() * wd.abs2() < F(1, 16)
            if not small:
                raise RuntimeError("tiny family: site is not in the domain of lemma SmallProductSolvable")
            o = dict(kind="small", zr=0, zi=0, wr=0, wi=0, e1=0, e2=0, br=True, fin=True, sq=0, dpos=True)
        if res is not None:
            o.update(abstract_site(zq, wq, M, res[0][k], res[1][k]))
        ev.append(o)
    return dict(refused=res is None, ev=ev, family=plan["family"], params=dict(gamma=gamma, u=u, dt=dt, mode=plan["mode"]),
                inputs=dict(psi=[[x.real, x.imag] for x in psi], eps=list(eps)),
                answer=None if res is None else [[complex(a).real, complex(a).imag, float(np.real(b))] for a, b in zip(res[0][:n], res[1][:n])])


NEAR_SIZES = [1e-9, 1e-10, 1e-11, 1e-12]
UNIT = 2.0 ** -53
MARGIN = 100.0          # the exact |D|/(2c+1)^2 must exceed the rounding bound of the float evaluation by this factor


def float_discriminant_bound(M, wmag):
    """A priori bound on the error of D/(2c+1)^2 as evaluated in floating point from the inputs, near a tangent point
    ((2c+1) = 2|z||w|): the error of w is <= 6u M (M = sum of the magnitudes of the terms of w), it enters D through
    (2c+1)^2 and 4|z|^2|w|^2 with weight <= 8 (2c+1)|z|, plus 10u for the products: u (24 M/|w| + 10)."""
    kappa = float(M / wmag) if wmag != 0 else math.inf
    return 2 * UNIT * (24 * kappa + 10), kappa


def near_plans(points, seed, quick):
    """Near-tangent family: tangent grid points, w scaled by (1 + delta) with delta = -r (2c+1)/2, so that
    D/(2c+1)^2 ~ r for r = +-1e-9 .. +-1e-12 (D(delta) = -2 (2c+1) delta + O(delta^2) at a tangent point)."""
    rnd = random.Random(seed + 29)
    tang = [p for p in points if p["cls"] == "tangent"]
    rnd.shuffle(tang)
    if quick:
        tang = tang[:45]
    plans = []
    for p in tang:
        for size in NEAR_SIZES:
            for sign in (1, -1):
                gamma = rnd.choice([1.0, 2.0])
                plans.append(dict(gamma=gamma, u=rnd.choice([1.0, 5.79]), dt=2.0 ** rnd.randint(-4, 1), point=p, r=sign * size,
                                  eps=rnd.choice([-1.0, 0.0, 0.5, 1.0]), lap=rnd.choice(["diag", "aux"]), n_ord=rnd.randint(0, 3),
                                  seed=rnd.randrange(10 ** 6), family=f"near-tangent/{'+' if sign > 0 else '-'}{size:g}"))
    return plans


def run_near(tdgl, plan, ordinary):
    rnd = random.Random(plan["seed"])
    gamma, u, dt = plan["gamma"], plan["u"], plan["dt"]
    p = plan["point"]
    N = p["n1"] / 16.0
    sites = [dict(x, q=0, eps=1.0, lap="aux", psi0=1) for x in rnd.sample(ordinary, plan["n_ord"])]
    near = dict(p, q=0, eps=plan["eps"], lap=plan["lap"], psi0=1, wscale=1.0 - plan["r"] * N / 2.0)
    pos = rnd.randint(0, len(sites))
    sites.insert(pos, near)
    n = len(sites)
    psi = np.zeros(n + 1, dtype=np.complex128)
    mu = np.zeros(n + 1)
    eps = np.ones(n + 1)
    L = np.zeros((n + 1, n + 1), dtype=np.complex128)
    psi[n] = 1.0
    reals = []
    for k, s in enumerate(sites):
        r = realise_site(s, gamma, u, dt)
        reals.append(r)
        psi[k], mu[k], eps[k] = r["psi"], r["mu"], r["eps"]
        L[k, k if r["lap"] == "diag" else n] = r["entry"]
    res = call_real(tdgl, psi, mu, eps, gamma, u, dt, L, werror=plan.get("werror", False))
    ev = []
    info = {}
    for k, s in enumerate(sites):
        rr = reals[k]
        action = complex(L[k, k] * psi[k]) if rr["lap"] == "diag" else complex(L[k, n] * psi[n])
        zd, wd, M = documented_zw(psi[k], mu[k], eps[k], gamma, u, dt, action)
        if k == pos:
            # the class of the site is the EXACT sign of the discriminant of the documented z, w of the realised float inputs
            c = zd.re * wd.re + zd.im * wd.im
            Nq = 2 * c + 1
            D = Nq * Nq - 4 * zd.abs2() * wd.abs2()
            ratio = float(D / (Nq * Nq))
            bound, kappa = float_discriminant_bound(M, wd.mag())
            determined = bool(Nq > 0 and abs(ratio) >= MARGIN * bound)
            info = dict(ratio=ratio, bound=bound, kappa=kappa, determined=determined, target=plan["r"])
            if determined:
                zq, wq = zd, wd
                o = dict(kind="near", zr=s["zr"], zi=s["zi"], wr=s["wr"], wi=s["wi"], e1=0, e2=0, br=True, fin=True, sq=0, dpos=bool(D > 0))
            else:
                zq, wq = zd, wd
                o = dict(kind="free", zr=s["zr"], zi=s["zi"], wr=s["wr"], wi=s["wi"], e1=0, e2=0, br=True, fin=True, sq=0, dpos=True)
            if res is not None:
                ob = abstract_site(zq, wq, M, res[0][k], res[1][k])
                o.update(ob)
        else:
            zq, wq = C(F(s["zr"], DEN), F(s["zi"], DEN)), C(F(s["wr"], DEN), F(s["wi"], DEN))
            o = dict(kind="grid", zr=s["zr"], zi=s["zi"], wr=s["wr"], wi=s["wi"], e1=0, e2=0, br=True, fin=True, sq=0, dpos=True)
            if res is not None:
                o.update(abstract_site(zq, wq, M, res[0][k], res[1][k]))
        ev.append(o)
    return dict(refused=res is None, ev=ev, family=plan["family"], params=dict(gamma=gamma, u=u, dt=dt), near=info,
                answer=None if res is None else [[complex(a).real, complex(a).imag, float(np.real(b))] for a, b in zip(res[0][:n], res[1][:n])])


def run_batch(tdgl, args, tmp=None):
    """worker entry (rf.replay_all 'call'): args = dict(plans=[...], tiny=[...], ordinary=[...], histories=[...], unsolvable=[...])"""
    import logging

    logging.getLogger("solver").setLevel(logging.CRITICAL)
    out = [run_plan(tdgl, p) for p in args.get("plans", [])]
    out += [run_tiny(tdgl, p, args["ordinary"]) for p in args.get("tiny", [])]
    out += [run_near(tdgl, p, args["ordinary"]) for p in args.get("near", [])]
    for p in args.get("histories", []):
        out += run_history(tdgl, p, args["ordinary"], args.get("unsolvable", []))
    return out


# ---------------------------------------------------------------- call histories on caller-owned argument buffers
#
# The property quantifies over INPUTS: the answer of a call is a function of the numbers in its arguments at the time of the call,
# whatever was asked before and whichever array objects carry the numbers.  A history is a sequence of calls of the real static method
# made by ONE caller that owns its argument buffers (a hand-written stepping loop with preallocated arrays): per buffer the caller
# either rewrites one persistent array in place ("inplace"), passes a new view object of one persistent block of memory ("view"), or
# allocates a new array for every call and drops the old one ("fresh": the allocator may hand out the same address again).  Between
# calls a subset of the value groups (psi [with |psi|^2], mu, epsilon, Laplacian entries) and of the scalars (dt, gamma, u) changes.
# Every call is one trace for PsiUpdateTrace (site kind "history"): z, w are the documented ones of the numbers the harness wrote
# (kept in its own Python lists, never read back from the buffers), class = exact sign of their discriminant.

HIST_BUFFERS = ["psi", "abs_sq_psi", "mu", "epsilon", "psi_laplacian"]
HIST_GROUP_OF = {"psi": "psi", "abs_sq_psi": "psi", "mu": "mu", "epsilon": "eps", "psi_laplacian": "lap"}
HIST_GROUPS = ["psi", "mu", "eps", "lap"]
HIST_MODES = ["inplace", "view", "fresh"]
HIST_EPS = [-1.0, -0.5, 0.0, 0.25, 0.5, 1.0]
HIST_FACTORS = [0.5, -1.0, 1j, 0.8 * cmath.exp(0.3j), 1.2, 0.9 * cmath.exp(-2.0j), 0.0]


def history_plans(seed, quick):
    """Plans of call histories: the first 13 are designed (each buffer alone reused in place / as a view while the others are fresh;
    all in place; all views; all fresh), the rest draw a mode per buffer."""
    rnd = random.Random(seed + 41)
    designed = []
    for b in HIST_BUFFERS:
        for m in ("inplace", "view"):
            designed.append(({x: (m if x == b else "fresh") for x in HIST_BUFFERS}, HIST_GROUP_OF[b]))
    for m in HIST_MODES:
        designed.append(({x: m for x in HIST_BUFFERS}, None))
    total = 40 if quick else 400
    plans = []
    for h in range(total):
        if h < len(designed):
            modes, focus = designed[h]
        else:
            modes, focus = {x: rnd.choice(HIST_MODES) for x in HIST_BUFFERS}, None
        gamma = 0.0 if h % 6 == 5 else rnd.choice(GAMMAS)
        plans.append(dict(h=h, modes=modes, focus=focus, gamma=gamma, u=rnd.choice([1.0, 5.79]), dt=2.0 ** rnd.randint(-10, 3),
                          n=rnd.randint(3, 6), calls=(6 if quick else 8), seed=rnd.randrange(10 ** 6), family="history"))
    return plans


def _float_class(psi, mu, eps, gamma, u, dt, action):
    """PLANNING only (never the oracle): float evaluation of the class of the documented z, w: 'solv', 'uns' or 'edge'"""
    U = cmath.exp(-1j * (mu * dt))
    a = abs(psi) ** 2
    z = gamma ** 2 / 2 * U * psi
    w = z * a + U * (psi + dt / u * math.sqrt(1 + gamma ** 2 * a) * ((eps - a) * psi + action))
    N = 2 * (z.real * w.real + z.imag * w.imag) + 1
    D = N * N - 4 * abs(z) ** 2 * abs(w) ** 2
    if N > 0 and D > 1e-4 * N * N:
        return "solv"
    if N <= 0 or D < -1e-4 * N * N:
        return "uns"
    return "edge"


class _CallerBuffers:
    """the caller's argument buffers of one history"""

    def __init__(self, n, modes):
        import scipy.sparse as sp

        self.sp = sp
        self.n = n
        self.modes = modes
        N = n + 1
        self.keep = {}
        for b, dt_ in (("psi", np.complex128), ("abs_sq_psi", float), ("mu", float), ("epsilon", float)):
            if modes[b] == "inplace":
                self.keep[b] = np.zeros(N, dtype=dt_)
            elif modes[b] == "view":
                self.keep[b] = np.zeros((3, N), dtype=dt_)
        # the Laplacian's fixed pattern: row k < n holds (k, k) and (k, n); row n is empty
        self.indices = np.array([c for k in range(n) for c in (k, n)], dtype=np.int32)
        self.indptr = np.array([2 * k for k in range(n)] + [2 * n, 2 * n], dtype=np.int32)
        self.data = np.zeros(2 * n, dtype=np.complex128)
        if modes["psi_laplacian"] == "inplace":
            self.keep["psi_laplacian"] = sp.csr_array((self.data, self.indices, self.indptr), shape=(N, N), copy=False)
        self.last = {}

    def vector(self, b, values, dtype):
        m = self.modes[b]
        if m == "inplace":
            arr = self.keep[b]
            arr[:] = values
        elif m == "view":
            self.keep[b][1, :] = values
            arr = self.keep[b][1]                     # a new view object on the same memory
        else:
            self.last.pop(b, None)                    # drop the previous call's array first
            arr = np.array(values, dtype=dtype)
        self.last[b] = arr
        return arr

    def laplacian(self, diag, aux):
        sp, n = self.sp, self.n
        m = self.modes["psi_laplacian"]
        flat = [x for k in range(n) for x in (diag[k], aux[k])]
        if m == "inplace":
            M = self.keep["psi_laplacian"]
            M.data[:] = flat
        elif m == "view":
            self.data[:] = flat
            M = sp.csr_array((self.data, self.indices, self.indptr), shape=(n + 1, n + 1), copy=False)   # new matrix object, same memory
        else:
            self.last.pop("psi_laplacian", None)
            L = np.zeros((n + 1, n + 1), dtype=np.complex128)
            for k in range(n):
                L[k, k], L[k, n] = diag[k], aux[k]
            M = sp.csr_array(L)
        self.last["psi_laplacian"] = M
        return M


def _history_schedule(rnd, calls, focus):
    """what changes before call k >= 1: (set of value groups, list of scalars)"""
    sched = []
    for k in range(1, calls):
        kind = (k % 5) if focus else rnd.randrange(5)
        g0 = focus or rnd.choice(HIST_GROUPS)
        others = [g for g in HIST_GROUPS if g != g0]
        if kind == 1:
            ch, sc = {g0}, []
        elif kind == 2:
            ch, sc = {g0} | set(rnd.sample(others, rnd.randint(1, 2))), []
        elif kind == 3:
            ch, sc = set(others), []
        elif kind == 4:
            ch = set() if rnd.random() < 0.35 else {"lap"}
            sc = rnd.sample(["dt", "gamma", "u"], rnd.randint(1, 2))
        else:
            ch, sc = set(HIST_GROUPS), (["dt"] if rnd.random() < 0.3 else [])
        sched.append((ch, sc))
    return sched


def run_history(tdgl, plan, solvable_points, unsolvable_points):
    """One history of calls of the REAL static method on caller-owned buffers -> one trace per call (+ a 'stale' observation per call:
    the previous call's answer judged against this call's inputs, which TLC must reject: sharpness of the family)."""
    import warnings

    from tdgl.solver.solver import TDGLSolver

    rnd = random.Random(plan["seed"])
    n = plan["n"]
    modes = plan["modes"]
    bufs = _CallerBuffers(n, modes)
    gamma, u, dt = plan["gamma"], plan["u"], plan["dt"]
    # the harness's OWN numbers (Python scalars): site k < n; the auxiliary site n holds the uniform stationary state
    psi = [0j] * n
    mu = [0.0] * n
    eps = [1.0] * n
    kind = ["aux"] * n
    entry = [0j] * n
    sched = [(set(HIST_GROUPS), [])] + _history_schedule(rnd, plan["calls"], plan.get("focus"))
    out = []
    prev = None
    for k, (changed, scal) in enumerate(sched):
        changed = set(changed)
        if "dt" in scal:
            dt = rnd.choice([x for x in (2.0 ** e for e in range(-10, 4)) if x != dt])
        if "u" in scal:
            u = 1.0 if u != 1.0 else 5.79
        if "gamma" in scal:
            gamma = rnd.choice([g for g in GAMMAS + [0.0] if g != gamma])
        g = gamma ** 2 / 2
        tau = dt / u
        want_refusal = ("lap" in changed) and gamma > 0 and rnd.random() < 0.3
        bad_site = rnd.randrange(n) if want_refusal else -1
        for i in range(n):
            if "mu" in changed:
                mu[i] = rnd.choice([rnd.choice(MU_PHASES) / dt, rnd.uniform(-math.pi, math.pi) / dt, rnd.uniform(-50.0, 50.0)])
            if "eps" in changed:
                eps[i] = rnd.choice(HIST_EPS)
            U = cmath.exp(-1j * (mu[i] * dt))
            target_w = None
            if "psi" in changed:
                if "lap" in changed and gamma > 0:
                    pool = unsolvable_points if (i == bad_site and unsolvable_points) else solvable_points
                    p = rnd.choice(pool)                                  # a grid point emitted by TLC
                    psi[i] = complex(p["zr"], p["zi"]) / DEN / (g * U)
                    target_w = complex(p["wr"], p["wi"]) / DEN
                elif gamma == 0 or psi[i] == 0:
                    psi[i] = rnd.choice(PSI_FREE)
                else:
                    cands = rnd.sample(HIST_FACTORS, len(HIST_FACTORS))
                    pick = cands[0]
                    if "lap" not in changed:
                        for f in cands:
                            act = entry[i] * (psi[i] * f if kind[i] == "diag" else 1.0)
                            if _float_class(psi[i] * f, mu[i], eps[i], gamma, u, dt, act) == "solv":
                                pick = f
                                break
                    psi[i] = psi[i] * pick
            if "lap" in changed:
                a = abs(psi[i]) ** 2
                z = g * U * psi[i]
                if target_w is None:
                    az = abs(z)
                    if i == bad_site and az > 0:
                        target_w = -z / az * rnd.uniform(1.0, 2.0) / az          # c = -|z||w| <= -1: 2c + 1 < 0, no solution
                    elif rnd.random() < 0.5:
                        r = rnd.random() * (2.0 if az == 0 else min(2.0, 0.2 / az))      # |z||w| < 1/4: lemma SmallProductSolvable
                        target_w = cmath.rect(r, rnd.uniform(-math.pi, math.pi))
                    else:
                        for _ in range(20):
                            target_w = cmath.rect(rnd.uniform(0.0, 2.5), rnd.uniform(-math.pi, math.pi))
                            c = z.real * target_w.real + z.imag * target_w.imag
                            if 2 * c + 1 > 0 and (2 * c + 1) ** 2 - 4 * az ** 2 * abs(target_w) ** 2 > 1e-3 * (2 * c + 1) ** 2:
                                break
                        else:
                            target_w = cmath.rect(rnd.random() * (2.0 if az == 0 else min(2.0, 0.2 / az)), 1.0)
                S = math.sqrt(1 + gamma ** 2 * a)
                ell = ((target_w - z * a) / U - psi[i]) / (tau * S) - (eps[i] - a) * psi[i]
                kind[i] = rnd.choice(["diag", "aux"]) if psi[i] != 0 else "aux"
                entry[i] = ell / psi[i] if kind[i] == "diag" else ell
        # ---- the caller writes its buffers and calls
        PSI = [complex(x) for x in psi] + [1 + 0j]
        MU = [float(x) for x in mu] + [0.0]
        EPS = [float(x) for x in eps] + [1.0]
        A2 = [abs(x) ** 2 for x in PSI]
        diag = [entry[i] if kind[i] == "diag" else 0j for i in range(n)]
        aux = [entry[i] if kind[i] == "aux" else 0j for i in range(n)]
        action = [complex(np.complex128(entry[i]) * np.complex128(PSI[i] if kind[i] == "diag" else 1.0)) for i in range(n)] + [0j]
        kw = dict(psi=bufs.vector("psi", PSI, np.complex128), abs_sq_psi=bufs.vector("abs_sq_psi", A2, float), mu=bufs.vector("mu", MU, float),
                  epsilon=bufs.vector("epsilon", EPS, float), gamma=gamma, u=u, dt=dt, psi_laplacian=bufs.laplacian(diag, aux))
        with warnings.catch_warnings():
            warnings.simplefilter("default")
            res = TDGLSolver.solve_for_psi_squared(**kw)
        del kw
        ans = None if res is None else (np.array(res[0]), np.array(res[1]))
        ev, worst = _site_obs(PSI, MU, EPS, gamma, u, dt, action, None if ans is None else ans[0], None if ans is None else ans[1], ans is None,
                              kind="history")
        stale = None
        if prev is not None and prev["ans"] is not None and ans is not None and (changed or scal):
            sev, sworst = _site_obs(PSI, MU, EPS, gamma, u, dt, action, prev["ans"][0], prev["ans"][1], False, kind="history")
            if sworst >= 1000 * TOL:           # the inputs changed materially: the previous answer is far from solving this call's equation
                stale = sev
        hist = dict(h=plan["h"], k=k, modes=modes, changed=sorted(changed) if k else [], scalars_changed=list(scal), focus=plan.get("focus"),
                    prev_refused=None if prev is None else prev["ans"] is None)
        out.append(dict(refused=ans is None, ev=ev, family="history", hist=hist, worst=worst, stale=stale,
                        params=dict(gamma=gamma, u=u, dt=dt),
                        inputs=dict(psi=[[x.real, x.imag] for x in PSI], mu=MU, eps=EPS, lap=[[kind[i], entry[i].real, entry[i].imag] for i in range(n)]),
                        answer=None if ans is None else [[complex(a_).real, complex(a_).imag, float(np.real(b_))] for a_, b_ in zip(ans[0], ans[1])]))
        prev = dict(ans=ans)
    return out


def to_tlc(trace):
    return {"refused": trace["refused"], "ev": trace["ev"]}


def trace_cfg(guarded=True):
    return ("CONSTANTS\n R = 8\n SMax = 0\n Emit = FALSE\n"
            f" Guarded = {'TRUE' if guarded else 'FALSE'}\n Tol = {TOL}\n SScale = {SSCALE}\n STol = {STOL}\n"
            "SPECIFICATION TSpec\nINVARIANT Accepted\nINVARIANT AnsweredImpliesEquation\nINVARIANT AnsweredImpliesSquaredModulus\n"
            "INVARIANT AnsweredIsPhysicalBranch\nINVARIANT AnsweredOnlyWhereSolvable\nINVARIANT RefusedIffSomeSiteUnsolvable\n"
            "CHECK_DEADLOCK FALSE\n")


def diagnosis_cfg():
    """unguarded run: every trace is consumed completely and TLC prints the violated clauses"""
    return ("CONSTANTS\n R = 8\n SMax = 0\n Emit = FALSE\n"
            f" Guarded = FALSE\n Tol = {TOL}\n SScale = {SSCALE}\n STol = {STOL}\n"
            "SPECIFICATION TSpec\nINVARIANT Diagnosis\nCHECK_DEADLOCK FALSE\n")


def model_cfg(invariants, emit=False, smax=128):
    return ("CONSTANTS\n R = 8\n SMax = %d\n Emit = %s\nSPECIFICATION Spec\n" % (smax, "TRUE" if emit else "FALSE")
            + "".join(f"INVARIANT {i}\n" for i in invariants) + "CHECK_DEADLOCK FALSE\n")


LEMMAS = ["TypeOK", "DiscriminantDecides", "ClassesAgree", "SmallProductSolvable", "DiscriminantLowerBound",
          "DocumentedRootAccepted", "OtherRootNotPhysical", "GridRootImpliesSolvable", "QuarterTurnInvariant"]


# ---------------------------------------------------------------- solver level (in situ): C02 on the updates of real runs


def _site_obs(psi_n, mu_n, eps, gamma, u, dt, action, p, s, refused, kind="insitu"):
    """per-site observations (kind 'insitu'; 'history' for the calls of a history on caller-owned buffers) of one answered update /
    one attempt, from the DOCUMENTED z, w of its inputs.  kind 'history': the class of a site is determined only where the exact
    |D|/(2c+1)^2 also exceeds 100 x the a-priori rounding bound of the float evaluation (as in the near-tangent family)."""
    ev = []
    worst = 0.0
    for i in range(len(psi_n)):
        zd, wd, M = documented_zw(psi_n[i], mu_n[i], eps[i], gamma, u, dt, complex(action[i]))
        c = zd.re * wd.re + zd.im * wd.im
        Nq = 2 * c + 1
        D = Nq * Nq - 4 * zd.abs2() * wd.abs2()
        ratio = float(D / (Nq * Nq)) if Nq != 0 else -1.0
        determined = abs(ratio) >= 1e-9
        if kind == "history" and determined and Nq > 0:
            determined = abs(ratio) >= MARGIN * float_discriminant_bound(M, wd.mag())[0]
        if refused:
            dpos = bool(Nq > 0 and D >= 0 and determined)          # undetermined sites may explain a refusal
        else:
            dpos = bool(not ((Nq <= 0 or D < 0) and determined))    # undetermined sites may be answered
        o = dict(kind=kind, zr=0, zi=0, wr=0, wi=0, e1=0, e2=0, br=True, fin=True, sq=0, dpos=dpos)
        if not refused:
            ob = abstract_site(zd, wd, M, p[i], s[i])
            o.update(ob)
            worst = max(worst, ob["e1"], ob["e2"])
        ev.append(o)
    return ev, worst


def insitu_run(tdgl, a, tmp):
    """A real run (or history of runs on one solver object) observed through run-time wrappers on TDGLSolver.update and
    TDGLSolver.solve_for_psi_squared (arguments and results untouched).  Per update call one trace at UPDATE level (psi^n, mu^n
    handed to update; dt and psi' returned; epsilon, gamma, u, covariant Laplacian in force) and one trace per refused attempt and
    for the last answered attempt at ATTEMPT level (the arguments of that call)."""
    import os
    import shutil
    import tempfile

    from tdgl.solver.solver import TDGLSolver
    from . import devices

    work = tempfile.mkdtemp(prefix="insitu", dir=tmp)
    # The oracle's physical parameters are the values ASKED FOR through the public constructors, never attributes read back
    # from the objects under test: gamma, u (documented default 5.79 when not passed), xi = 1, epsilon.
    base = devices.make(tdgl, a.get("dev", "bar"), mel=a.get("mel", 0.8))
    REQ_GAMMA = float(a.get("gamma", 10.0))
    REQ_U = float(a["u"]) if a.get("u") is not None else 5.79
    lkw = dict(coherence_length=1.0, london_lambda=2.0, thickness=0.1, gamma=a.get("gamma", 10.0))
    if a.get("conductivity") is not None:
        lkw["conductivity"] = a["conductivity"]
    if a.get("u") is not None:
        lkw["u"] = a["u"]
    dev = tdgl.Device(base.name, layer=tdgl.Layer(**lkw), film=base.film, holes=base.holes, terminals=list(base.terminals),
                      probe_points=base.probe_points, length_units=base.length_units)
    dev.mesh = base.mesh
    # route: the device that is SIMULATED is derived from the constructed one through the public API (gamma, u, xi asked for stay the
    # oracle's values whatever the derived objects report)
    route = a.get("route")
    pre_solution = None
    if route:
        import warnings as _w

        with _w.catch_warnings():
            _w.simplefilter("ignore")
            if route == "copy":
                dev = dev.copy()
            elif route == "rotate":
                dev = dev.rotate(30.0)
            elif route == "scale":
                dev = dev.scale(xfact=-1.0, yfact=1.0)
            elif route == "translate":
                dev = dev.translate(dx=0.5, dy=-0.25)
            elif route == "hdf5":
                path = os.path.join(work, "device.h5")
                dev.to_hdf5(path)
                dev = tdgl.Device.from_hdf5(path)
            elif route == "solution-device":
                pre_solution = True       # resolved below, after the options/drive are known
            else:
                raise ValueError(route)
            if dev.mesh is None:
                dev.make_mesh(max_edge_length=a.get("mel", 0.8), smooth=0)
    REQ_SITES = 1.0 * np.asarray(dev.mesh.sites)            # positions in length units: xi (asked for: 1.0) times the mesh sites

    # decoys: further Layers/Devices with OTHER (gamma, u), built after the simulated device and before the solve (a sweep that
    # builds all its devices first): the run must still use the values asked for ITS layer
    decoys = []
    for g, uu in a.get("decoys", []):
        dl = tdgl.Layer(coherence_length=1.0, london_lambda=2.0, thickness=0.1, gamma=g, u=uu)
        decoys.append(tdgl.Device("decoy", layer=dl, film=base.film, holes=base.holes, terminals=list(base.terminals),
                                  probe_points=base.probe_points, length_units=base.length_units))

    # epsilon as the USER's function; the oracle's epsilon is the harness's OWN evaluation of it at xi * sites and the step time
    T_EPS = a.get("epsilon_ramp")
    form = a.get("epsilon_form", "float") if T_EPS else None

    def bump(r, t):
        return 0.6 * min(1.0, t / T_EPS) * float(np.exp(-((r[0] - 0.5) ** 2 + r[1] ** 2)))

    if form == "float":
        def eps_fn(r, *, t):
            return 1.0 - bump(r, t)
    elif form == "int-mixed":          # the Python int 1 away from the suppressed region (site 0 is there), fractional floats inside
        def eps_fn(r, *, t):
            return 1 if (r[0] - 0.5) ** 2 + r[1] ** 2 > 1.0 else 1.0 - bump(r, t)
    elif form == "numpy-scalar":       # numpy scalars of mixed types
        def eps_fn(r, *, t):
            return np.int64(1) if (r[0] - 0.5) ** 2 + r[1] ** 2 > 1.0 else np.float32(1.0 - bump(r, t))
    elif form == "vectorized":
        def eps_fn(r, *, t, vectorized=True):
            r = np.atleast_2d(r)
            return 1.0 - 0.6 * min(1.0, t / T_EPS) * np.exp(-((r[:, 0] - 0.5) ** 2 + r[:, 1] ** 2))
    elif form == "static-int-mixed":   # position dependent, not time dependent
        def eps_fn(r):
            return 1 if (r[0] - 0.5) ** 2 + r[1] ** 2 > 1.0 else 0.7
    elif form is not None:
        raise ValueError(form)

    def requested_epsilon(time):
        if form is None:
            return float(a["epsilon"] if a.get("epsilon") is not None else 1.0) * np.ones(len(REQ_SITES))
        if form == "vectorized":
            return np.asarray(eps_fn(REQ_SITES, t=time), dtype=float)
        if form == "static-int-mixed":
            return np.array([float(eps_fn(r)) for r in REQ_SITES])
        return np.array([float(eps_fn(r, t=time)) for r in REQ_SITES])

    orig_update, orig_sps = TDGLSolver.update, TDGLSolver.solve_for_psi_squared
    attempts = []
    records = []
    phase = {"label": "first"}

    def w_sps(*args, **kw):
        res = orig_sps(*args, **kw)
        psi = np.array(kw["psi"])
        rec = dict(psi=psi, mu=np.array(kw["mu"], dtype=float) * np.ones(len(psi)), eps=None,
                   gamma=REQ_GAMMA, u=REQ_U, dt=float(kw["dt"]), action=np.array(kw["psi_laplacian"] @ psi),
                   res=None if res is None else (np.array(res[0]), np.array(res[1])))
        attempts.append(rec)
        return res

    def w_update(self, state, running_state, dt, **kw):
        psi_n, mu_n = np.array(kw["psi"]), np.array(kw["mu"])
        attempts.clear()
        res = orig_update(self, state, running_state, dt, **kw)
        last = [r for r in attempts if r["res"] is not None][-1]
        eps_req = requested_epsilon(float(state["time"]))
        for r in attempts:
            r["eps"] = eps_req
        records.append(dict(phase=phase["label"], step=int(state["step"]), time=float(state["time"]), psi_n=psi_n, mu_n=mu_n,
                            eps=eps_req, gamma=REQ_GAMMA, u=REQ_U, dt=float(res.dt),
                            action=np.array(self.operators.psi_laplacian @ psi_n), p=np.array(res.psi), s=last["res"][1],
                            n_attempts=len(attempts), refused=[r for r in attempts if r["res"] is None], last=last,
                            first=[r for r in attempts if r["res"] is not None][0],
                            iterations=sum(1 for r in attempts if r["res"] is not None)))
        return res

    TDGLSolver.update = w_update
    TDGLSolver.solve_for_psi_squared = staticmethod(w_sps)
    try:
        def opts(out, solve_time):
            return tdgl.SolverOptions(solve_time=solve_time, skip_time=a.get("skip_time", 0.0), dt_init=a.get("dt", 2.0 ** -6), dt_max=a.get("dt_max", 0.05),
                                      adaptive=a.get("adaptive", True), adaptive_window=a.get("window", 3), save_every=a.get("k", 5),
                                      progress_interval=10 ** 9, pause_on_interrupt=False, output_file=os.path.join(work, out),
                                      include_screening=a.get("screening", False), field_units="mT", current_units="uA",
                                      max_solve_retries=a.get("max_retries", 10), screening_tolerance=a.get("screening_tol", 1e-3))
        kw = {}
        cur = devices.balanced_currents(a.get("dev", "bar"), a.get("current", 0.0))
        if cur is not None:
            if a.get("current_ramp"):
                T = a["current_ramp"]
                kw["terminal_currents"] = lambda t, cur=cur, T=T: {k: v * min(1.0, t / T) for k, v in cur.items()}
            else:
                kw["terminal_currents"] = cur
        if a.get("field_ramp"):
            from tdgl.sources import ConstantField, LinearRamp

            kw["applied_vector_potential"] = ConstantField(a.get("field", 0.0), field_units="mT", length_units="um") * LinearRamp(tmin=0, tmax=a["field_ramp"])
        else:
            kw["applied_vector_potential"] = a.get("field", 0.0)
        if form is not None:
            kw["disorder_epsilon"] = eps_fn
        elif a.get("epsilon") is not None:
            kw["disorder_epsilon"] = a["epsilon"]
        scenario = a.get("scenario", "plain")
        import warnings

        wctx = warnings.catch_warnings()
        wctx.__enter__()
        if a.get("werror"):
            # numerical warnings are errors in this process state (as under python -W error::RuntimeWarning)
            warnings.simplefilter("error", RuntimeWarning)
        if pre_solution:
            # the simulated device is Solution.from_hdf5(path).device of an earlier (short) solve of the constructed device
            sol0 = tdgl.solve(dev, opts("pre.h5", a.get("pre_solve_time", 0.05)), **kw)
            dev = tdgl.Solution.from_hdf5(sol0.path).device
            phase["label"] = "solution-device"
        if scenario == "plain":
            tdgl.solve(dev, opts("a.h5", a["solve_time"]), **kw)
        elif scenario == "second-solve":
            solver = TDGLSolver(dev, opts("a.h5", a["solve_time"]), **kw)
            solver.solve()
            phase["label"] = "second-solve"
            solver.solve()
        elif scenario == "seeded":
            sol = tdgl.solve(dev, opts("a.h5", a["solve_time"]), **kw)
            phase["label"] = "seeded"
            tdgl.solve(dev, opts("b.h5", a.get("solve_time2", a["solve_time"])), seed_solution=sol, **kw)
        else:
            raise ValueError(scenario)
        wctx.__exit__(None, None, None)
    finally:
        TDGLSolver.update = orig_update
        TDGLSolver.solve_for_psi_squared = orig_sps
        shutil.rmtree(work, ignore_errors=True)
    # ---- abstraction
    traces = []
    stride = a.get("stride", 1)
    first_of_phase = {}
    for n, r in enumerate(records):
        first_of_phase.setdefault(r["phase"], n)
    must = {n for n, r in enumerate(records) if n in first_of_phase.values() or r["step"] <= 1}
    cand = [n for n, r in enumerate(records) if (n % stride == 0 or r["refused"]) and n not in must]
    cap = a.get("max_traced")
    if cap is not None and len(must) + len(cand) > cap:
        room = max(0, cap - len(must))
        cand = [cand[int(round(k * (len(cand) - 1) / max(1, room - 1)))] for k in range(room)] if room else []
    chosen = must | set(cand)
    for n, r in enumerate(records):
        retried = len(r["refused"]) > 0
        if n not in chosen:
            continue
        label = f"{r['phase']}/step{r['step']}"
        ev, worst = _site_obs(r["psi_n"], r["mu_n"], r["eps"], r["gamma"], r["u"], r["dt"], r["action"], r["p"], r["s"], False)
        traces.append(dict(refused=False, ev=ev, family="insitu-update", level="update", label=label, retried=retried, iterations=r["iterations"],
                           mu_max=float(np.abs(r["mu_n"]).max()), worst=worst, params=dict(run=a["label"], dt=r["dt"])))
        A1 = r["first"]
        if r["iterations"] > 1 or retried:
            # the first answered attempt of the step: its arguments are psi^n, |psi^n|^2, mu^n themselves
            ev, worst = _site_obs(A1["psi"], A1["mu"], A1["eps"], A1["gamma"], A1["u"], A1["dt"], A1["action"], A1["res"][0], A1["res"][1], False)
            traces.append(dict(refused=False, ev=ev, family="insitu-first-answered-attempt", level="attempt", label=label, retried=retried,
                               iterations=r["iterations"], mu_max=float(np.abs(A1["mu"]).max()), worst=worst, params=dict(run=a["label"], dt=A1["dt"])))
        for R in r["refused"][:2]:
            ev, _ = _site_obs(R["psi"], R["mu"], R["eps"], R["gamma"], R["u"], R["dt"], R["action"], None, None, True)
            traces.append(dict(refused=True, ev=ev, family="insitu-refused", level="attempt", label=label, retried=True, iterations=r["iterations"],
                               mu_max=float(np.abs(R["mu"]).max()), worst=0, params=dict(run=a["label"], dt=R["dt"])))
    eps_used = requested_epsilon(records[-1]["time"]) if records else np.ones(1)
    return dict(run=a["label"], requested_gamma=REQ_GAMMA, requested_u=REQ_U, u_passed=a.get("u") is not None, epsilon_form=form,
                epsilon_fractional_sites=int(np.sum((eps_used != 1.0) & (eps_used != np.round(eps_used)))),
                decoys=[list(d) for d in a.get("decoys", [])], route=route, conductivity_set=a.get("conductivity") is not None,
                n_updates_on_derived=(sum(1 for r in records if r["phase"] == "solution-device") if route == "solution-device" else len(records)),
                traces=traces, n_updates=len(records), n_retried=sum(1 for r in records if r["refused"]),
                phases=sorted(first_of_phase), max_iterations=max((r["iterations"] for r in records), default=0))
